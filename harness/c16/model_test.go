// Package c16 decides C16: a container.Container behaves like a plain byte
// queue under every sequence of its exported operations.
//
// model_test.go: the reference ([]byte queue + independent LEB128 codec), the
// operation type and the executor that applies one operation to the real
// container and to the model and compares every observable result.
package c16

import (
	"bytes"
	"encoding/hex"
	"encoding/json"
	"errors"
	"fmt"
	"os"
	"strings"
	"testing"

	"github.com/safing/portbase/container"

	"verifharness/internal/stats"
)

func TestMain(m *testing.M) {
	probeAllocBound()
	if !allocBounded {
		stats.Warn("container allocates the requested length even when less is held: requests and block lengths between 2^31 and 2^48 are not generated (they would kill the process with an unrecoverable out-of-memory error)")
	}
	stats.Main(m)
}

// ---------------------------------------------------------------- varint reference

type refStatus int

const (
	refOK refStatus = iota
	refTruncated
	refOverflow
)

// refDecode is an independent LEB128 decoder for 64-bit unsigned integers.
func refDecode(b []byte) (v uint64, n int, minimal bool, st refStatus) {
	for i := 0; i < len(b); i++ {
		c := b[i]
		if i == 9 && c > 1 {
			return 0, 0, false, refOverflow
		}
		if i > 9 {
			return 0, 0, false, refOverflow
		}
		v |= uint64(c&0x7f) << (7 * uint(i))
		if c&0x80 == 0 {
			return v, i + 1, i == 0 || c != 0, refOK
		}
	}
	return 0, 0, false, refTruncated
}

// refEncode is the shortest base-128 encoding.
func refEncode(v uint64) []byte {
	var out []byte
	for {
		c := byte(v & 0x7f)
		v >>= 7
		if v != 0 {
			out = append(out, c|0x80)
		} else {
			return append(out, c)
		}
	}
}

func cat(parts ...[]byte) []byte {
	n := 0
	for _, p := range parts {
		n += len(p)
	}
	out := make([]byte, 0, n)
	for _, p := range parts {
		out = append(out, p...)
	}
	return out
}

// ---------------------------------------------------------------- operations

type opKind int

const (
	opPrepend opKind = iota
	opAppend
	opPrependNumber
	opAppendNumber
	opPrependInt
	opAppendInt
	opAppendAsBlock
	opPrependAsBlock
	opAppendContainer
	opAppendContainerAsBlock
	opPrependLength
	opReplace
	opCompile
	opGet
	opGetAll
	opGetAsContainer
	opGetMax
	opWriteToSlice
	opWriteAllTo
	opPeek
	opPeekContainer
	opGetNextBlock
	opGetNextBlockAsContainer
	opN8
	opN16
	opN32
	opN64
	opMarshalJSON
	opNew // a further container joins the pool (New / NewContainer / zero value / UnmarshalJSON on a fresh one)
	numOps
)

var opNames = [...]string{
	"Prepend", "Append", "PrependNumber", "AppendNumber", "PrependInt", "AppendInt", "AppendAsBlock", "PrependAsBlock",
	"AppendContainer", "AppendContainerAsBlock", "PrependLength", "Replace", "CompileData", "Get", "GetAll",
	"GetAsContainer", "GetMax", "WriteToSlice", "WriteAllTo", "Peek", "PeekContainer", "GetNextBlock",
	"GetNextBlockAsContainer", "GetNextN8", "GetNextN16", "GetNextN32", "GetNextN64", "MarshalJSON", "New",
}

// construction modes of opNew
const (
	newEmpty    = iota // container.New()
	newZero            // &container.Container{}
	newOne             // container.New(data)
	newMany            // container.New(parts...)
	newManyDepr        // container.NewContainer(parts...)
	newJSON            // UnmarshalJSON on a zero value
	numNewModes
)

// writer behaviours of opWriteAllTo
const (
	wFull  = iota // accepts everything
	wShort        // accepts at most n bytes per call (n>=1), no error: WriteAllTo must loop
	wFail         // accepts n bytes in total, then fails
)

type op struct {
	kind  opKind
	tgt   int      // pool index of the receiver
	other int      // pool index of the argument container (AppendContainer*)
	n     int      // requested length / slice size / writer parameter
	v     uint64   // number
	data  []byte   // slice argument (never modified after it was handed over)
	parts [][]byte // opNew with several slices
	mode  int      // opNew construction mode / writer behaviour
}

func hx(b []byte) string {
	if b == nil {
		return "nil"
	}
	if len(b) > 40 {
		return fmt.Sprintf("%s..(%d bytes)", hex.EncodeToString(b[:40]), len(b))
	}
	return "x" + hex.EncodeToString(b)
}

func (o op) String() string {
	s := fmt.Sprintf("c%d.%s", o.tgt, opNames[o.kind])
	switch o.kind {
	case opPrepend, opAppend, opAppendAsBlock, opPrependAsBlock, opReplace:
		return s + "(" + hx(o.data) + ")"
	case opPrependNumber, opAppendNumber:
		return fmt.Sprintf("%s(%d)", s, o.v)
	case opPrependInt, opAppendInt:
		return fmt.Sprintf("%s(%d)", s, int(o.v))
	case opAppendContainer, opAppendContainerAsBlock:
		return fmt.Sprintf("%s(c%d)", s, o.other)
	case opGet, opGetAsContainer, opGetMax, opPeek, opPeekContainer:
		return fmt.Sprintf("%s(%d)", s, o.n)
	case opWriteToSlice:
		return fmt.Sprintf("%s(make([]byte,%d))", s, o.n)
	case opWriteAllTo:
		return fmt.Sprintf("%s(writer mode %d param %d)", s, o.mode, o.n)
	case opNew:
		switch o.mode {
		case newEmpty:
			return "New()"
		case newZero:
			return "&Container{}"
		case newOne:
			return "New(" + hx(o.data) + ")"
		case newJSON:
			return "UnmarshalJSON(json(" + hx(o.data) + "))"
		default:
			var p []string
			for _, x := range o.parts {
				p = append(p, hx(x))
			}
			name := "New"
			if o.mode == newManyDepr {
				name = "NewContainer"
			}
			return name + "(" + strings.Join(p, ", ") + ")"
		}
	}
	return s + "()"
}

// ---------------------------------------------------------------- world

type fataler interface {
	Fatalf(format string, args ...any)
}

type ent struct {
	c     *container.Container
	m     []byte // the plain byte queue
	slots int    // upper bound of the number of compartments (generator bound only, see growthBounded)
}

// Histories are bounded: appending a container to itself (or two containers to
// each other in turn) doubles the number of compartments with every step, 30
// such steps exhaust the memory of the test process whatever the library does.
const (
	maxSlots = 1 << 12
	maxHeld  = 1 << 16
)

// growthBounded tells the generators whether AppendContainer*(other) on tgt stays within the bounds.
func (w *world) growthBounded(tgt, other int) bool {
	a, b := w.pool[tgt], w.pool[other]
	return a.slots+b.slots+1 <= maxSlots && len(a.m)+len(b.m)+10 <= maxHeld
}

const maxPool = 4

// flags observed while a history runs (for the class histogram)
type flags struct {
	failedConsume     bool // a consuming call returned an error / nothing although asked for something
	shortResult       bool // GetMax / WriteToSlice / Peek granted less than requested
	split             bool // a split-off container exists
	bigNum            bool // number >= 2^63 written or read
	hugeReq           bool // requested length far beyond what is held
	negReq            bool
	emptyPut          bool // nil / empty slice handed in
	compErrPrefixGone bool // composite call failed after consuming the well-formed prefix
	compErrNothing    bool // composite call failed and consumed nothing
	nonMinimalRead    bool
	drainedReused     bool // container emptied completely and used again
	renew             bool // >= 5 prepends in a row on one container (spare slots exhausted)
	blockOK           bool
	numOK             bool
	emptyStartRead    bool // read-type call on a container that never held a compartment
	twoByteLen        bool // block with a length prefix of >= 2 bytes
	replaceAfterUse   bool
	granted           int // bytes compared against the model in results
	puts, reads       int
}

type world struct {
	t        fataler
	pool     []*ent
	hist     []op
	f        flags
	prepRun  map[int]int
	drained  map[int]bool
	everHeld map[int]bool
	light    bool // exhaustive mode: no history flags
}

func newWorld(t fataler) *world {
	return &world{t: t, prepRun: map[int]int{}, drained: map[int]bool{}, everHeld: map[int]bool{}}
}

// newLightWorld: for the enumerations; no class flags are collected.
func newLightWorld(t fataler) *world {
	return &world{t: t, light: true}
}

func (w *world) history() string {
	var sb strings.Builder
	for i, o := range w.hist {
		fmt.Fprintf(&sb, "  %2d: %s\n", i, o.String())
	}
	return sb.String()
}

func (w *world) fail(format string, a ...any) {
	w.t.Fatalf("%s\nhistory:\n%s", fmt.Sprintf(format, a...), w.history())
}

// journal writes the history to $VERIF_JOURNAL before a call that may kill the
// process (unbounded allocation), so that the driver has a replay file.
func (w *world) journal() {
	if p := os.Getenv("VERIF_JOURNAL"); p != "" {
		b, _ := json.Marshal(map[string]any{"property": "C16", "history": w.history()})
		_ = os.WriteFile(p, b, 0o644)
	}
}

type limitedWriter struct {
	buf   bytes.Buffer
	mode  int
	param int
	calls int
}

var errWriter = errors.New("harness writer: full")

func (lw *limitedWriter) Write(p []byte) (int, error) {
	lw.calls++
	switch lw.mode {
	case wShort:
		k := lw.param
		if k < 1 {
			k = 1
		}
		if k > len(p) {
			k = len(p)
		}
		lw.buf.Write(p[:k])
		return k, nil
	case wFail:
		room := lw.param - lw.buf.Len()
		if room < 0 {
			room = 0
		}
		if room >= len(p) {
			lw.buf.Write(p)
			return len(p), nil
		}
		lw.buf.Write(p[:room])
		return room, errWriter
	default:
		lw.buf.Write(p)
		return len(p), nil
	}
}

// snapshot reads the full content without consuming or restructuring.
func snapshot(c *container.Container) ([]byte, error) {
	var lw limitedWriter
	err := c.WriteAllTo(&lw)
	return lw.buf.Bytes(), err
}

// check compares the observable state of one container with its model.
func (w *world) check(i int, after any) {
	e := w.pool[i]
	if l := e.c.Length(); l != len(e.m) {
		w.fail("after %v: c%d.Length() = %d, the byte queue holds %d bytes (%s)", after, i, l, len(e.m), hx(e.m))
	}
	if h := e.c.HoldsData(); h != (len(e.m) > 0) {
		w.fail("after %v: c%d.HoldsData() = %v, the byte queue holds %d bytes", after, i, h, len(e.m))
	}
	got, err := snapshot(e.c)
	if err != nil {
		w.fail("after %v: c%d.WriteAllTo(buffer) failed: %v", after, i, err)
	}
	if !bytes.Equal(got, e.m) {
		w.fail("after %v: c%d holds %s, the byte queue holds %s", after, i, hx(got), hx(e.m))
	}
}

func (w *world) checkAll(after any) {
	for i := range w.pool {
		w.check(i, after)
	}
}

type retireName struct {
	i   int
	why string
}

func (r retireName) String() string {
	return fmt.Sprintf("final CompileData/GetAll of c%d (%s)", r.i, r.why)
}

// retire verifies a container completely (compile, then drain) and drops it.
func (w *world) retire(i int, why string) {
	e := w.pool[i]
	w.guard(retireName{i, why}, func() {
		cd := e.c.CompileData()
		if !bytes.Equal(cd, e.m) {
			w.fail("%s: c%d.CompileData() = %s, the byte queue holds %s", why, i, hx(cd), hx(e.m))
		}
		w.check(i, "CompileData")
		all := e.c.GetAll()
		if !bytes.Equal(all, e.m) {
			w.fail("%s: c%d.GetAll() = %s, the byte queue holds %s", why, i, hx(all), hx(e.m))
		}
		e.m = nil
		w.check(i, "GetAll")
	})
}

func (w *world) finish() {
	for i := range w.pool {
		w.retire(i, "end of history")
	}
}

func (w *world) guard(what any, f func()) {
	defer func() {
		if r := recover(); r != nil {
			// rapid aborts a case by panicking with its own (unexported) types: pass those on
			if tn := fmt.Sprintf("%T", r); strings.HasPrefix(tn, "rapid.") || strings.HasPrefix(tn, "*rapid.") {
				panic(r)
			}
			w.fail("%v panicked: %v", what, r)
		}
	}()
	f()
}

// adopt adds a split-off / new container to the pool.
func (w *world) adopt(c *container.Container, m []byte, slots int) int {
	ne := &ent{c: c, m: m, slots: slots}
	if len(w.pool) < maxPool {
		w.pool = append(w.pool, ne)
		return len(w.pool) - 1
	}
	// pool full: verify and replace the last slot
	i := maxPool - 1
	w.retire(i, "leaves the pool")
	w.pool[i] = ne
	delete(w.prepRun, i)
	delete(w.drained, i)
	delete(w.everHeld, i)
	return i
}

func maxOf(width uint) uint64 {
	if width >= 64 {
		return ^uint64(0)
	}
	return 1<<width - 1
}

// huge: a request that the container must not try to allocate.
func isHuge(n, held int) bool { return n > held+(1<<20) }

// apply runs one operation on the real container and the model.
func (w *world) apply(o op) {
	w.hist = append(w.hist, o)
	name := o // rendered only when a message is printed
	if o.kind == opNew {
		w.guard(name, func() { w.applyNew(o) })
		w.checkAll(name)
		return
	}
	e := w.pool[o.tgt]
	if !w.light {
		w.note(o, e)
	}
	if (o.kind == opGet || o.kind == opGetMax || o.kind == opPeek || o.kind == opGetAsContainer || o.kind == opPeekContainer) && isHuge(o.n, len(e.m)) {
		w.journal()
	}
	if o.kind == opGetNextBlock || o.kind == opGetNextBlockAsContainer {
		if v, k, _, st := refDecode(e.m); st == refOK && v > uint64(len(e.m)-k)+(1<<20) {
			w.journal()
		}
	}
	w.guard(name, func() { w.applyTo(o, e, name) })
	switch {
	case o.kind == opAppendContainer || o.kind == opAppendContainerAsBlock:
		e.slots += w.pool[o.other].slots + 1
	case o.kind == opReplace || o.kind == opCompile || o.kind == opMarshalJSON:
		e.slots = 1
	case isPut(o.kind):
		e.slots += 6 // a put may also add up to five spare slots (renewCompartments)
	}
	w.checkAll(name)
	if !w.light && len(e.m) == 0 && isConsuming(o.kind) {
		w.drained[o.tgt] = true
	}
}

func isConsuming(k opKind) bool {
	switch k {
	case opGet, opGetAll, opGetAsContainer, opGetMax, opWriteToSlice, opGetNextBlock, opGetNextBlockAsContainer, opN8, opN16, opN32, opN64:
		return true
	}
	return false
}

func isRead(k opKind) bool {
	return isConsuming(k) || k == opPeek || k == opPeekContainer
}

func isPut(k opKind) bool { return k <= opPrependLength }

// note records generator classes before the operation runs.
func (w *world) note(o op, e *ent) {
	switch o.kind {
	case opPrepend, opPrependNumber, opPrependInt, opPrependAsBlock, opPrependLength:
		w.prepRun[o.tgt]++
		if w.prepRun[o.tgt] >= 5 {
			w.f.renew = true
		}
	default:
		w.prepRun[o.tgt] = 0
	}
	if isPut(o.kind) {
		w.f.puts++
		if w.drained[o.tgt] {
			w.f.drainedReused = true
		}
		w.everHeld[o.tgt] = true
	}
	if isRead(o.kind) {
		w.f.reads++
		if !w.everHeld[o.tgt] {
			w.f.emptyStartRead = true
		}
	}
	switch o.kind {
	case opPrepend, opAppend, opAppendAsBlock, opPrependAsBlock, opReplace:
		if len(o.data) == 0 {
			w.f.emptyPut = true
		}
		if (o.kind == opAppendAsBlock || o.kind == opPrependAsBlock) && len(o.data) >= 128 {
			w.f.twoByteLen = true
		}
		if o.kind == opReplace {
			w.everHeld[o.tgt] = true
			if w.f.puts+w.f.reads > 0 {
				w.f.replaceAfterUse = true
			}
		}
	case opPrependNumber, opAppendNumber, opPrependInt, opAppendInt:
		if o.v >= 1<<63 {
			w.f.bigNum = true
		}
	case opGet, opGetAsContainer, opGetMax, opPeek, opPeekContainer:
		if o.n < 0 {
			w.f.negReq = true
		}
		if isHuge(o.n, len(e.m)) {
			w.f.hugeReq = true
		}
	}
}

func (w *world) applyNew(o op) {
	var c *container.Container
	var m []byte
	cp := func(b []byte) []byte { // the container keeps the slice it is given; the model keeps its own copy
		if b == nil {
			return nil
		}
		return append([]byte{}, b...)
	}
	switch o.mode {
	case newEmpty:
		c = container.New()
	case newZero:
		c = &container.Container{}
	case newOne:
		c = container.New(cp(o.data))
		m = cp(o.data)
	case newMany, newManyDepr:
		parts := make([][]byte, len(o.parts)) // exact capacity, not shared with anything
		for i, p := range o.parts {
			parts[i] = cp(p)
			m = append(m, p...)
		}
		if o.mode == newMany {
			c = container.New(parts...)
		} else {
			c = container.NewContainer(parts...)
		}
	case newJSON:
		// the documented use of UnmarshalJSON: fill a fresh container from the output of MarshalJSON
		src := container.New(cp(o.data))
		js, err := src.MarshalJSON()
		if err != nil {
			w.fail("MarshalJSON of a one-slice container failed: %v", err)
		}
		c = &container.Container{}
		if err := c.UnmarshalJSON(js); err != nil {
			w.fail("UnmarshalJSON(MarshalJSON(%s)=%s) failed: %v", hx(o.data), js, err)
		}
		m = cp(o.data)
	}
	i := w.adopt(c, m, len(o.parts)+1)
	if !w.light && (len(m) > 0 || len(o.parts) > 0 || o.mode == newOne || o.mode == newJSON) {
		w.everHeld[i] = true
	}
}

// number applies GetNextN<width>.
func (w *world) number(o op, e *ent, name fmt.Stringer, width uint) {
	var got uint64
	var err error
	switch width {
	case 8:
		var x uint8
		x, err = e.c.GetNextN8()
		got = uint64(x)
	case 16:
		var x uint16
		x, err = e.c.GetNextN16()
		got = uint64(x)
	case 32:
		var x uint32
		x, err = e.c.GetNextN32()
		got = uint64(x)
	default:
		got, err = e.c.GetNextN64()
	}
	v, k, minimal, st := refDecode(e.m)
	if err != nil {
		// a failed plain call consumes nothing (checked by checkAll against the unchanged model)
		if st == refOK && minimal && v <= maxOf(width) {
			w.fail("%s returned error %q although the queue starts with the shortest encoding %s of %d", name, err, hx(e.m[:k]), v)
		}
		w.f.failedConsume = true
		return
	}
	if st != refOK {
		w.fail("%s = %d succeeded although the queue %s does not start with a complete varint (reference status %d)", name, got, hx(e.m), st)
	}
	if v > maxOf(width) {
		w.fail("%s = %d succeeded although the encoded number %d exceeds %d bits", name, got, v, width)
	}
	if got != v {
		w.fail("%s = %d, the queue starts with the encoding %s of %d", name, got, hx(e.m[:k]), v)
	}
	if !minimal {
		w.f.nonMinimalRead = true
	}
	if v >= 1<<63 {
		w.f.bigNum = true
	}
	w.f.numOK = true
	w.f.granted += k
	e.m = e.m[k:]
}

// block applies GetNextBlock / GetNextBlockAsContainer (composite: number, then body).
func (w *world) block(o op, e *ent, name fmt.Stringer) {
	before := len(e.m)
	var data []byte
	var sub *container.Container
	var err error
	if o.kind == opGetNextBlock {
		data, err = e.c.GetNextBlock()
	} else {
		sub, err = e.c.GetNextBlockAsContainer()
	}
	v, k, minimal, st := refDecode(e.m)
	fits := st == refOK && v <= uint64(before-k)
	if err != nil {
		if fits && minimal {
			w.fail("%s returned error %q although the queue %s starts with a complete block (prefix %d, %d bytes follow)", name, err, hx(e.m), v, before-k)
		}
		if data != nil || sub != nil {
			w.fail("%s returned an error together with data", name)
		}
		w.f.failedConsume = true
		if st == refOK && v >= 1<<63 {
			w.f.bigNum = true
		}
		// Either nothing or exactly the well-formed length prefix is gone; never part of a token.
		gone := before - e.c.Length()
		switch {
		case gone == 0:
			w.f.compErrNothing = true
		case st == refOK && gone == k:
			w.f.compErrPrefixGone = true
			e.m = e.m[k:]
		default:
			w.fail("%s failed (%v) and consumed %d bytes; the queue was %s (reference: status %d, prefix of %d bytes announcing %d)", name, err, gone, hx(e.m), st, k, v)
		}
		return
	}
	if st != refOK {
		w.fail("%s succeeded although the queue %s does not start with a complete varint (reference status %d)", name, hx(e.m), st)
	}
	if !fits {
		w.fail("%s succeeded although the length prefix announces %d bytes and only %d are held", name, v, before-k)
	}
	want := e.m[k : k+int(v)]
	if o.kind == opGetNextBlock {
		if !bytes.Equal(data, want) {
			w.fail("%s = %s, the block in the queue is %s", name, hx(data), hx(want))
		}
		e.m = e.m[k+int(v):]
	} else {
		if sub == nil {
			w.fail("%s returned neither a container nor an error", name)
		}
		e.m = e.m[k+int(v):]
		w.f.split = true
		w.adopt(sub, cat(want), e.slots)
	}
	if v >= 128 {
		w.f.twoByteLen = true
	}
	if !minimal {
		w.f.nonMinimalRead = true
	}
	w.f.blockOK = true
	w.f.granted += k + int(v)
}

func clampReq(n, held int) int {
	if n < 0 {
		return 0
	}
	if n > held {
		return held
	}
	return n
}

func (w *world) applyTo(o op, e *ent, name fmt.Stringer) {
	held := len(e.m)
	// the slice handed to the container is a private copy: the container keeps it ("Data will NOT be copied")
	var arg []byte
	if o.data != nil {
		arg = append([]byte{}, o.data...)
	}
	switch o.kind {
	case opPrepend:
		e.c.Prepend(arg)
		e.m = cat(o.data, e.m)
	case opAppend:
		e.c.Append(arg)
		e.m = cat(e.m, o.data)
	case opPrependNumber:
		e.c.PrependNumber(o.v)
		e.m = cat(refEncode(o.v), e.m)
	case opAppendNumber:
		e.c.AppendNumber(o.v)
		e.m = cat(e.m, refEncode(o.v))
	case opPrependInt:
		e.c.PrependInt(int(o.v))
		e.m = cat(refEncode(uint64(int(o.v))), e.m)
	case opAppendInt:
		e.c.AppendInt(int(o.v))
		e.m = cat(e.m, refEncode(uint64(int(o.v))))
	case opAppendAsBlock:
		e.c.AppendAsBlock(arg)
		e.m = cat(e.m, refEncode(uint64(len(o.data))), o.data)
	case opPrependAsBlock:
		e.c.PrependAsBlock(arg)
		e.m = cat(refEncode(uint64(len(o.data))), o.data, e.m)
	case opAppendContainer:
		src := w.pool[o.other]
		e.c.AppendContainer(src.c)
		e.m = cat(e.m, src.m)
	case opAppendContainerAsBlock:
		src := w.pool[o.other]
		e.c.AppendContainerAsBlock(src.c)
		e.m = cat(e.m, refEncode(uint64(len(src.m))), src.m)
	case opPrependLength:
		e.c.PrependLength()
		e.m = cat(refEncode(uint64(held)), e.m)
	case opReplace:
		e.c.Replace(arg)
		e.m = cat(o.data)
	case opCompile:
		got := e.c.CompileData()
		if !bytes.Equal(got, e.m) {
			w.fail("%s = %s, the byte queue holds %s", name, hx(got), hx(e.m))
		}
	case opMarshalJSON:
		js, err := e.c.MarshalJSON()
		if err != nil {
			w.fail("%s failed: %v", name, err)
		}
		var raw []byte
		if err := json.Unmarshal(js, &raw); err != nil {
			w.fail("%s = %s is not a JSON byte array: %v", name, js, err)
		}
		if !bytes.Equal(raw, e.m) {
			w.fail("%s = %s decodes to %s, the byte queue holds %s", name, js, hx(raw), hx(e.m))
		}
	case opGet:
		got, err := e.c.Get(o.n)
		switch {
		case o.n < 0:
			// not a request a byte queue defines: an error or an empty result, nothing consumed
			if len(got) != 0 {
				w.fail("%s returned %d bytes", name, len(got))
			}
		case o.n > held:
			if err == nil {
				w.fail("%s succeeded (%d bytes) although only %d bytes are held", name, len(got), held)
			}
			if got != nil {
				w.fail("%s returned an error together with %d bytes", name, len(got))
			}
			w.f.failedConsume = true
		default:
			if err != nil {
				w.fail("%s failed (%v) although %d bytes are held", name, err, held)
			}
			if !bytes.Equal(got, e.m[:o.n]) {
				w.fail("%s = %s, the queue starts with %s", name, hx(got), hx(e.m[:o.n]))
			}
			w.f.granted += o.n
			e.m = e.m[o.n:]
		}
	case opGetAll:
		got := e.c.GetAll()
		if !bytes.Equal(got, e.m) {
			w.fail("%s = %s, the byte queue holds %s", name, hx(got), hx(e.m))
		}
		w.f.granted += held
		e.m = nil
	case opGetMax:
		got := e.c.GetMax(o.n)
		k := clampReq(o.n, held)
		if !bytes.Equal(got, e.m[:k]) {
			w.fail("%s = %s, want the first %d bytes %s of the queue", name, hx(got), k, hx(e.m[:k]))
		}
		if k < o.n {
			w.f.shortResult = true
		}
		w.f.granted += k
		e.m = e.m[k:]
	case opPeek:
		got := e.c.Peek(o.n)
		k := clampReq(o.n, held)
		if !bytes.Equal(got, e.m[:k]) {
			w.fail("%s = %s, want the first %d bytes %s of the queue", name, hx(got), k, hx(e.m[:k]))
		}
		if k < o.n {
			w.f.shortResult = true
		}
		w.f.granted += k
	case opGetAsContainer, opPeekContainer:
		var sub *container.Container
		var err error
		if o.kind == opGetAsContainer {
			sub, err = e.c.GetAsContainer(o.n)
			if (sub == nil) == (err == nil) {
				w.fail("%s returned container=%v error=%v", name, sub != nil, err)
			}
		} else {
			sub = e.c.PeekContainer(o.n)
		}
		switch {
		case o.n < 0:
			if sub != nil && sub.Length() != 0 {
				w.fail("%s returned a container of %d bytes", name, sub.Length())
			}
			if sub != nil {
				w.adopt(sub, nil, 1)
			}
		case o.n > held:
			if sub != nil {
				w.fail("%s returned a container (%d bytes) although only %d bytes are held", name, sub.Length(), held)
			}
			if o.kind == opGetAsContainer {
				w.f.failedConsume = true
			} else {
				w.f.shortResult = true
			}
		default:
			if sub == nil {
				w.fail("%s returned nothing (%v) although %d bytes are held", name, err, held)
			}
			m := cat(e.m[:o.n])
			if o.kind == opGetAsContainer {
				e.m = e.m[o.n:]
			}
			w.f.split = true
			w.f.granted += o.n
			w.adopt(sub, m, e.slots) // content is compared by checkAll
		}
	case opWriteToSlice:
		const sentinel = 0xA5
		buf := bytes.Repeat([]byte{sentinel}, o.n+3)
		dst := buf[:o.n:o.n]
		n, emptied := e.c.WriteToSlice(dst)
		k := clampReq(o.n, held)
		if n != k {
			w.fail("%s reported %d bytes written, want %d (slice %d, held %d)", name, n, k, o.n, held)
		}
		if !bytes.Equal(dst[:k], e.m[:k]) {
			w.fail("%s wrote %s, the queue starts with %s", name, hx(dst[:k]), hx(e.m[:k]))
		}
		for i := k; i < len(buf); i++ {
			if buf[i] != sentinel {
				w.fail("%s modified byte %d of the destination beyond the %d bytes it reported", name, i, k)
			}
		}
		if emptied != (held-k == 0) {
			w.fail("%s reported containerEmptied=%v, %d bytes remain in the queue", name, emptied, held-k)
		}
		if k < o.n {
			w.f.shortResult = true
		}
		w.f.granted += k
		e.m = e.m[k:]
	case opWriteAllTo:
		lw := &limitedWriter{mode: o.mode, param: o.n}
		err := e.c.WriteAllTo(lw)
		out := lw.buf.Bytes()
		if o.mode == wFail && o.n < held {
			if !errors.Is(err, errWriter) {
				w.fail("%s = %v, want the writer's error (writer accepts %d of %d bytes)", name, err, o.n, held)
			}
			if !bytes.HasPrefix(e.m, out) {
				w.fail("%s wrote %s, not a prefix of the queue %s", name, hx(out), hx(e.m))
			}
		} else {
			if err != nil {
				w.fail("%s failed: %v", name, err)
			}
			if !bytes.Equal(out, e.m) {
				w.fail("%s wrote %s, the byte queue holds %s", name, hx(out), hx(e.m))
			}
		}
	case opN8:
		w.number(o, e, name, 8)
	case opN16:
		w.number(o, e, name, 16)
	case opN32:
		w.number(o, e, name, 32)
	case opN64:
		w.number(o, e, name, 64)
	case opGetNextBlock, opGetNextBlockAsContainer:
		w.block(o, e, name)
	default:
		w.fail("harness: unknown operation %d", o.kind)
	}
}

// ---------------------------------------------------------------- allocation guard

// allocBounded: the container does not allocate the requested length when less
// is held. While that is not the case (open defect), lengths between 2^31 and
// 2^48 would make the runtime die with "out of memory" (not recoverable, and
// the driver calls that inconclusive), so the generators then only use
// requests above 2^48, which fail with a recoverable makeslice panic.
var allocBounded bool

func probeAllocBound() {
	defer func() {
		if r := recover(); r != nil {
			allocBounded = false
		}
	}()
	c := container.New([]byte{1})
	_, _ = c.Get(1 << 62)
	allocBounded = true
}
