package c16

// exhaustive_test.go: complete enumeration of a finite sub-space, and the
// regression tests of the fixed findings.

import (
	"fmt"
	"math"
	"sync/atomic"
	"testing"

	"verifharness/internal/stats"
)

// alphabet: zero-length block, one/two byte blocks, continuation bit, all ones.
var exAlphabet = []byte{0x00, 0x01, 0x02, 0x80, 0xff}

// exReadOps: every observing / consuming call with every request from -1 to 5
// (the strings have at most 4 bytes, so this covers negative, zero, exact, +1).
func exReadOps() []op {
	var ops []op
	for n := -1; n <= 5; n++ {
		for _, k := range []opKind{opGet, opGetMax, opPeek, opPeekContainer, opGetAsContainer} {
			ops = append(ops, op{kind: k, n: n})
		}
		if n >= 0 {
			ops = append(ops, op{kind: opWriteToSlice, n: n})
		}
	}
	for _, k := range []opKind{opGetAll, opCompile, opN8, opN16, opN32, opN64, opGetNextBlock, opGetNextBlockAsContainer, opWriteAllTo, opMarshalJSON} {
		ops = append(ops, op{kind: k})
	}
	return ops
}

// exStrings: all strings over the alphabet with the given length.
func exStrings(l int) [][]byte {
	out := [][]byte{{}}
	for i := 0; i < l; i++ {
		var next [][]byte
		for _, s := range out {
			for _, a := range exAlphabet {
				next = append(next, append(append([]byte{}, s...), a))
			}
		}
		out = next
	}
	return out
}

// exSplits: every way of cutting s into non-empty consecutive parts.
func exSplits(s []byte) [][][]byte {
	if len(s) == 0 {
		return [][][]byte{nil}
	}
	var out [][][]byte
	for mask := 0; mask < 1<<(len(s)-1); mask++ {
		var parts [][]byte
		start := 0
		for i := 1; i < len(s); i++ {
			if mask&(1<<(i-1)) != 0 {
				parts = append(parts, s[start:i])
				start = i
			}
		}
		out = append(out, append(parts, s[start:]))
	}
	return out
}

const exBuildModes = 4

// exBuild creates the container for one split in one of four ways.
func exBuild(w *world, parts [][]byte, mode int) {
	switch mode {
	case 0:
		if len(parts) == 0 {
			w.apply(op{kind: opNew, mode: newEmpty})
		} else {
			w.apply(op{kind: opNew, mode: newMany, parts: parts})
		}
	case 1:
		w.apply(op{kind: opNew, mode: newEmpty})
		for _, p := range parts {
			w.apply(op{kind: opAppend, data: p})
		}
	case 2:
		w.apply(op{kind: opNew, mode: newZero})
		for i := len(parts) - 1; i >= 0; i-- {
			w.apply(op{kind: opPrepend, data: parts[i]})
		}
	default:
		// empty and nil compartments in front, between and behind
		withEmpty := [][]byte{{}}
		for i, p := range parts {
			withEmpty = append(withEmpty, p)
			if i%2 == 0 {
				withEmpty = append(withEmpty, nil)
			} else {
				withEmpty = append(withEmpty, []byte{})
			}
		}
		w.apply(op{kind: opNew, mode: newManyDepr, parts: withEmpty})
	}
}

// TestExhaustiveSmallQueues: every byte string of length <= 4 over the
// alphabet, every split into compartments, four ways of building it, followed
// by every single read operation (length <= 4) and every ordered pair of read
// operations (length <= 3).
func TestExhaustiveSmallQueues(t *testing.T) {
	ops := exReadOps()
	type job struct {
		s     []byte
		pairs bool
	}
	var jobs []job
	for l := 0; l <= 4; l++ {
		for _, s := range exStrings(l) {
			jobs = append(jobs, job{s, l <= 3})
		}
	}
	const workers = 16
	var total, nontrivial atomic.Int64
	t.Run("partitions", func(t *testing.T) {
		for p := 0; p < workers; p++ {
			p := p
			t.Run(fmt.Sprint(p), func(t *testing.T) {
				t.Parallel()
				var n, nt int64
				for ji := p; ji < len(jobs); ji += workers {
					j := jobs[ji]
					for _, parts := range exSplits(j.s) {
						for mode := 0; mode < exBuildModes; mode++ {
							for i1 := range ops {
								run := func(second *op) {
									w := newLightWorld(t)
									exBuild(w, parts, mode)
									w.apply(ops[i1])
									if second != nil {
										w.apply(*second)
									}
									w.finish()
									n++
									if len(j.s) > 0 {
										nt++
									}
								}
								run(nil)
								if j.pairs {
									for i2 := range ops {
										run(&ops[i2])
									}
								}
							}
						}
					}
				}
				total.Add(n)
				nontrivial.Add(nt)
			})
		}
	})
	stats.CaseN(total.Load(), nontrivial.Load(), "exhaustive_small_queues")
	stats.Exhaustive(fmt.Sprintf("all byte strings of length <= 4 over {00,01,02,80,ff} x all splits into compartments x %d construction modes x all %d single read operations (requests -1..5); for length <= 3 also all %d ordered pairs", exBuildModes, len(ops), len(ops)*len(ops)))
	stats.Sample("exhaustive_small_queues", map[string]any{"example": "New(x80, x01ff) ; c0.GetNextN8() ; c0.Get(1) ; final CompileData/GetAll", "operations": len(ops)})
}

// TestExhaustivePutThenRead: every put operation with boundary arguments on
// every small start container, followed by every read operation.
func TestExhaustivePutThenRead(t *testing.T) {
	ops := exReadOps()
	nums := []uint64{0, 1, 2, 127, 128, 255, 256, 16383, 16384, 1<<63 - 1, 1 << 63, ^uint64(0)}
	if allocBounded {
		nums = append(nums, 1<<32-1, 1<<32, 1<<48) // see allocBounded: as block lengths these kill an unfixed container
	}
	datas := [][]byte{nil, {}, {0x00}, {0x01}, {0x80}, {0x02, 0xff}, pattern(127, 1), pattern(128, 1)}
	var puts []op
	for _, d := range datas {
		for _, k := range []opKind{opPrepend, opAppend, opAppendAsBlock, opPrependAsBlock, opReplace} {
			puts = append(puts, op{kind: k, data: d})
		}
	}
	for _, v := range nums {
		for _, k := range []opKind{opPrependNumber, opAppendNumber, opPrependInt, opAppendInt} {
			puts = append(puts, op{kind: k, v: v})
		}
	}
	puts = append(puts, op{kind: opPrependLength})
	starts := [][][]byte{nil, {{}}, {{0x01}}, {{0x80}}, {{0x02}, {0x09, 0x08}}, {{0xff, 0x01}, {}, {0x07}}}
	var n, nt int64
	for _, parts := range starts {
		for mode := 0; mode < exBuildModes; mode++ {
			for _, put := range puts {
				for i := range ops {
					w := newLightWorld(t)
					exBuild(w, parts, mode)
					w.apply(put)
					w.apply(ops[i])
					w.finish()
					n++
					if len(w.hist) > 0 {
						nt++
					}
				}
			}
		}
	}
	stats.CaseN(n, nt, "exhaustive_put_then_read")
	stats.Exhaustive(fmt.Sprintf("%d start containers x %d construction modes x %d put operations with boundary arguments x %d read operations", len(starts), exBuildModes, len(puts), len(ops)))
}

// ---------------------------------------------------------------- regressions (fixed findings)

func script(t *testing.T, ops ...op) {
	t.Helper()
	w := newWorld(t)
	for _, o := range ops {
		w.apply(o)
	}
	w.finish()
}

// Peek, Get, GetMax, GetNextN*, GetNextBlock* on a container that has no
// compartments (New(), zero value, a zero-length split-off) panicked with
// "index out of range [0] with length 0".
func TestRegReadWithoutCompartments(t *testing.T) {
	for _, mode := range []int{newEmpty, newZero} {
		for _, o := range exReadOps() {
			script(t, op{kind: opNew, mode: mode}, o)
		}
	}
	// zero-length block split off as a container, then read from it
	for _, o := range exReadOps() {
		o.tgt = 1
		script(t, op{kind: opNew, mode: newOne, data: []byte{0x00, 0x09}}, op{kind: opGetNextBlockAsContainer}, o)
		script(t, op{kind: opNew, mode: newOne, data: []byte{0x09}}, op{kind: opPeekContainer, n: 0}, o)
		script(t, op{kind: opNew, mode: newOne, data: []byte{0x09}}, op{kind: opGetAsContainer, n: 0}, o)
	}
}

// Replace kept the read offset of the old compartment list: after a Prepend
// the new data was invisible (Length 0) and Peek panicked.
func TestRegReplaceAfterPrepend(t *testing.T) {
	script(t,
		op{kind: opNew, mode: newOne, data: []byte{1}},
		op{kind: opPrepend, data: []byte{2}},
		op{kind: opReplace, data: []byte{7, 8}},
		op{kind: opPeek, n: 1},
		op{kind: opAppend, data: []byte{9}},
		op{kind: opGet, n: 3},
	)
	script(t,
		op{kind: opNew, mode: newEmpty},
		op{kind: opPrependNumber, v: 300},
		op{kind: opReplace, data: []byte{5}},
		op{kind: opN8},
	)
}

// A request for far more than is held made Peek allocate the requested
// length: makeslice panic above 2^48, fatal out-of-memory up to 2^48.
func TestRegHugeRequest(t *testing.T) {
	reqs := []int{1 << 49, 1 << 62, math.MaxInt}
	if allocBounded {
		reqs = append(reqs, 1<<31, 1<<40, 1<<48)
	}
	for _, n := range reqs {
		for _, k := range []opKind{opGet, opGetMax, opPeek, opGetAsContainer, opPeekContainer} {
			script(t, op{kind: opNew, mode: newMany, parts: [][]byte{{1}, {2, 3}}}, op{kind: k, n: n})
			script(t, op{kind: opNew, mode: newOne, data: []byte{1}}, op{kind: k, n: n})
		}
	}
	lens := []uint64{1 << 49, 1<<63 - 1}
	if allocBounded {
		lens = append(lens, 1<<31, 1<<40, 1<<48)
	}
	for _, l := range lens {
		for _, k := range []opKind{opGetNextBlock, opGetNextBlockAsContainer} {
			script(t, op{kind: opNew, mode: newEmpty}, op{kind: opAppendNumber, v: l}, op{kind: opAppend, data: []byte{1, 2, 3}}, op{kind: k})
		}
	}
}

// GetNextBlock converted the length prefix to int: 2^63..2^64-1 became
// negative and the call "succeeded" with an empty block.
func TestRegBlockLengthAboveInt(t *testing.T) {
	for _, l := range []uint64{1 << 63, 1<<63 + 1, ^uint64(0) - 1, ^uint64(0)} {
		for _, k := range []opKind{opGetNextBlock, opGetNextBlockAsContainer} {
			script(t, op{kind: opNew, mode: newEmpty}, op{kind: opAppendNumber, v: l}, op{kind: opAppend, data: []byte{1, 2, 3}}, op{kind: k}, op{kind: opGetMax, n: 2})
			script(t, op{kind: opNew, mode: newEmpty}, op{kind: opAppendNumber, v: l}, op{kind: k})
		}
	}
}
