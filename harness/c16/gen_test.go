package c16

// gen_test.go: generators (one implementation, fed either by rapid draws or by
// the bytes of a native fuzz input), the rapid properties and the fuzz targets.

import (
	"bytes"
	"encoding/binary"
	"fmt"
	"math"
	"strings"
	"testing"

	"pgregory.net/rapid"

	"verifharness/internal/stats"
)

// ---------------------------------------------------------------- sources

type source interface {
	choice(label string, n int) int // uniform in [0,n)
	u64(label string) uint64
	raw(label string, max int) []byte
	exhausted() bool
}

type rapidSrc struct{ t *rapid.T }

func (s rapidSrc) choice(label string, n int) int {
	if n <= 1 {
		return 0
	}
	return rapid.IntRange(0, n-1).Draw(s.t, label)
}
func (s rapidSrc) u64(label string) uint64 { return rapid.Uint64().Draw(s.t, label) }
func (s rapidSrc) raw(label string, max int) []byte {
	return rapid.SliceOfN(rapid.Byte(), 0, max).Draw(s.t, label)
}
func (s rapidSrc) exhausted() bool { return false }

// byteSrc interprets a fuzz input as the stream of generator decisions.
type byteSrc struct {
	b   []byte
	pos int
}

func (s *byteSrc) next() byte {
	if s.pos >= len(s.b) {
		s.pos++
		return 0
	}
	c := s.b[s.pos]
	s.pos++
	return c
}

func (s *byteSrc) choice(_ string, n int) int {
	if n <= 1 {
		return 0
	}
	if n <= 256 {
		return int(s.next()) % n
	}
	return (int(s.next())<<8 | int(s.next())) % n
}

func (s *byteSrc) u64(string) uint64 {
	var x [8]byte
	for i := range x {
		x[i] = s.next()
	}
	return binary.LittleEndian.Uint64(x[:])
}

func (s *byteSrc) raw(_ string, max int) []byte {
	n := s.choice("", max+1)
	out := make([]byte, n)
	for i := range out {
		out[i] = s.next()
	}
	return out
}

func (s *byteSrc) exhausted() bool { return s.pos >= len(s.b) }

// weighted choice
func pick(s source, label string, weights []int) int {
	total := 0
	for _, w := range weights {
		total += w
	}
	x := s.choice(label, total)
	for i, w := range weights {
		if x < w {
			return i
		}
		x -= w
	}
	return len(weights) - 1
}

// ---------------------------------------------------------------- value generators

func genU64(s source) uint64 {
	switch s.choice("numkind", 6) {
	case 0:
		return s.u64("uniform")
	case 1:
		k := s.choice("group", 10)
		d := s.choice("delta", 5) - 2
		return uint64(1)<<(7*uint(k)) + uint64(int64(d))
	case 2:
		k := s.choice("bit", 64)
		d := s.choice("delta", 5) - 2
		return uint64(1)<<uint(k) + uint64(int64(d))
	case 3:
		return ^uint64(0) - uint64(s.choice("fromtop", 300))
	case 4:
		return uint64(s.choice("small", 300))
	default:
		return uint64(1)<<63 + uint64(int64(s.choice("d63", 7)-3))
	}
}

// genData draws a slice argument: nil, empty, short random, varint-like (many
// continuation bits), counting patterns (position errors become visible) and a
// few long ones (length prefixes of two bytes).
func genData(s source) []byte {
	switch pick(s, "datakind", []int{1, 1, 2, 5, 4, 4, 1}) {
	case 0:
		return nil
	case 1:
		return []byte{}
	case 2:
		return []byte{byte(s.choice("b", 256))}
	case 3:
		return s.raw("bytes", 24)
	case 4:
		n := s.choice("vlen", 12)
		out := make([]byte, n)
		for i := range out {
			switch s.choice("bytekind", 6) {
			case 0:
				out[i] = byte(s.choice("b", 256))
			case 1:
				out[i] = 0x80
			case 2:
				out[i] = 0xff
			case 3:
				out[i] = 0x80 | byte(s.choice("b", 128))
			case 4:
				out[i] = byte(s.choice("small", 4))
			default:
				out[i] = byte(s.choice("b", 128))
			}
		}
		return out
	case 5:
		n := s.choice("plen", 40)
		return pattern(n, byte(s.choice("start", 256)))
	default:
		n := []int{126, 127, 128, 129, 200, 300}[s.choice("longlen", 6)]
		return pattern(n, byte(s.choice("start", 256)))
	}
}

func pattern(n int, start byte) []byte {
	out := make([]byte, n)
	for i := range out {
		out[i] = start + byte(i)*7
	}
	return out
}

// genReq draws a requested length relative to what is held. Ordered so that
// shrinking (towards index 0) moves to harmless requests.
func genReq(s source, held int) int {
	w := []int{6, 3, 3, 3, 3, 3, 2, 2, 2, 1, 1, 1, 1, 1, 1}
	if !allocBounded {
		w = w[:len(w)-3]
	}
	switch pick(s, "reqkind", w) {
	case 0:
		return s.choice("within", held+1)
	case 1:
		return held
	case 2:
		return held + 1
	case 3:
		return held - 1
	case 4:
		return 0
	case 5:
		return 1
	case 6:
		return -1
	case 7:
		return held + 2 + s.choice("beyond", 40)
	case 8:
		return math.MinInt
	case 9:
		return math.MaxInt
	case 10:
		return 1 << 62
	case 11:
		return 1 << 49 // makeslice panics above 2^48 (recoverable); 2^48 itself is attempted and kills the process
	case 12:
		return 1 << 31
	case 13:
		return 1 << 40
	default:
		return 1 << 48
	}
}

func genNew(s source) op {
	o := op{kind: opNew}
	o.mode = pick(s, "newmode", []int{3, 1, 3, 4, 1, 1})
	switch o.mode {
	case newOne, newJSON:
		o.data = genData(s)
		if o.mode == newJSON && o.data == nil {
			o.data = []byte{}
		}
	case newMany, newManyDepr:
		n := 2 + s.choice("parts", 5)
		for i := 0; i < n; i++ {
			o.parts = append(o.parts, genData(s))
		}
	}
	return o
}

// op weights of the free-running generator
var opWeights = func() []int {
	w := make([]int, numOps)
	for i := range w {
		w[i] = 3
	}
	w[opPrepend], w[opAppend] = 6, 6
	w[opAppendAsBlock], w[opPrependAsBlock] = 4, 4
	w[opPrependNumber], w[opAppendNumber] = 4, 4
	w[opPrependInt], w[opAppendInt] = 2, 2
	w[opReplace] = 2
	w[opCompile] = 2
	w[opMarshalJSON] = 1
	w[opWriteAllTo] = 2
	w[opGetAll] = 1
	w[opGet], w[opGetMax], w[opPeek] = 5, 4, 4
	w[opGetNextBlock], w[opGetNextBlockAsContainer] = 5, 4
	w[opNew] = 2
	return w
}()

var numberReaders = []opKind{opGetNextBlock, opGetNextBlockAsContainer, opN8, opN16, opN32, opN64, opGetNextBlock, opN64}

// genOp draws the next operation for the current state of the world.
func genOp(s source, w *world, g *genState) op {
	o := genOp1(s, w, g)
	if !allocBounded && (o.kind == opGetNextBlock || o.kind == opGetNextBlockAsContainer) {
		m := w.pool[o.tgt].m
		if v, k, _, st := refDecode(m); st == refOK && v > uint64(len(m)-k)+(1<<20) && v <= 1<<48 {
			o.kind = opN64 // see allocBounded: this block read would kill the process
		}
	}
	return o
}

func genOp1(s source, w *world, g *genState) op {
	var o op
	hot, hotTgt := &g.hot, g.tgt
	if *hot && s.choice("readnumber", 3) != 0 {
		// a number / block was just put at the front: read it back with one of the number readers
		o.kind = numberReaders[s.choice("reader", len(numberReaders))]
		o.tgt = len(w.pool) - 1
		if hotTgt >= 0 && hotTgt < len(w.pool) {
			o.tgt = hotTgt
		}
		*hot = false
		return o
	}
	*hot = false
	o.kind = opKind(pick(s, "op", opWeights))
	if o.kind == opNew {
		return genNew(s)
	}
	o.tgt = s.choice("target", len(w.pool))
	held := len(w.pool[o.tgt].m)
	switch o.kind {
	case opPrepend, opAppend, opAppendAsBlock, opPrependAsBlock, opReplace:
		o.data = genData(s)
	case opPrependNumber, opAppendNumber:
		o.v = genU64(s)
	case opPrependInt, opAppendInt:
		o.v = genU64(s)
		if s.choice("smallint", 2) == 0 {
			o.v = uint64(int64(s.choice("int", 400) - 100))
		}
	case opAppendContainer, opAppendContainerAsBlock:
		o.other = s.choice("other", len(w.pool))
		if o.other == o.tgt && o.kind == opAppendContainerAsBlock {
			// "append yourself as a block" is not an operation a byte queue defines (the
			// length is written into the very compartment list that is then appended).
			o.other = (o.tgt + 1) % len(w.pool)
			if o.other == o.tgt {
				o.kind = opAppendContainer
			}
		}
		if !w.growthBounded(o.tgt, o.other) {
			o.kind = opGetAll // bounded histories, see growthBounded
		}
	case opGet, opGetAsContainer, opGetMax, opPeek, opPeekContainer:
		o.n = genReq(s, held)
	case opWriteToSlice:
		switch s.choice("slicekind", 5) {
		case 0:
			o.n = 0
		case 1:
			o.n = held
		case 2:
			o.n = held + 1 + s.choice("more", 8)
		case 3:
			o.n = s.choice("within", held+1)
		default:
			o.n = 1
		}
	case opWriteAllTo:
		o.mode = s.choice("writer", 3)
		switch o.mode {
		case wShort:
			o.n = 1 + s.choice("chunk", 7)
		case wFail:
			o.n = s.choice("room", held+2)
		}
	}
	switch o.kind {
	case opPrependNumber, opPrependInt, opPrependAsBlock, opPrependLength:
		g.hot, g.tgt = true, o.tgt
	case opAppendNumber, opAppendInt, opAppendAsBlock:
		if held == 0 {
			g.hot, g.tgt = true, o.tgt
		}
	}
	return o
}

// genState: a number / block was just put at the front of container tgt.
type genState struct {
	hot bool
	tgt int
}

// runHistory generates and executes one history.
func runHistory(t fataler, s source, maxSteps int) *world {
	w := newWorld(t)
	g := &genState{tgt: -1}
	first := genNew(s)
	w.apply(first)
	steps := 1 + s.choice("steps", maxSteps)
	for i := 0; i < steps && !s.exhausted(); i++ {
		w.apply(genOp(s, w, g))
	}
	w.finish()
	return w
}

func fingerprint(w *world) string {
	var sb strings.Builder
	for _, o := range w.hist {
		sb.WriteString(o.String())
		if len(o.data) > 40 {
			fmt.Fprintf(&sb, "#%x", o.data[40:])
		}
		sb.WriteByte(';')
	}
	return sb.String()
}

func record(w *world, prefix string) {
	f := w.f
	cls := []string{prefix + "start_" + []string{"empty", "zero_value", "one_slice", "many_slices", "many_slices_NewContainer", "from_json"}[w.hist[0].mode]}
	add := func(b bool, name string) {
		if b {
			cls = append(cls, prefix+name)
		}
	}
	add(f.failedConsume, "has_failed_consuming_call")
	add(f.shortResult, "has_short_result")
	add(f.split, "has_split_container")
	add(f.bigNum, "has_number_ge_2^63")
	add(f.hugeReq, "has_huge_request")
	add(f.negReq, "has_negative_request")
	add(f.emptyPut, "has_nil_or_empty_slice_put")
	add(f.compErrPrefixGone, "composite_error_prefix_consumed")
	add(f.compErrNothing, "composite_error_nothing_consumed")
	add(f.nonMinimalRead, "has_nonminimal_varint_read")
	add(f.drainedReused, "drained_then_refilled")
	add(f.renew, "five_prepends_in_a_row")
	add(f.blockOK, "has_successful_block_read")
	add(f.numOK, "has_successful_number_read")
	add(f.emptyStartRead, "read_on_container_without_compartments")
	add(f.twoByteLen, "has_block_ge_128_bytes")
	add(f.replaceAfterUse, "replace_after_use")
	add(len(w.pool) > 1, "several_containers")
	// non-trivial: something was put, something was read and bytes were actually compared
	nontrivial := f.puts >= 1 && f.reads >= 1 && f.granted >= 1 && len(w.hist) >= 3
	stats.Case(fingerprint(w), nontrivial, cls...)
	if nontrivial && stats.WantSample(prefix+"history") && len(w.hist) >= 5 && len(w.hist) <= 14 && (f.failedConsume || f.split) {
		var lines []string
		for _, o := range w.hist {
			lines = append(lines, o.String())
		}
		stats.Sample(prefix+"history", map[string]any{"ops": lines, "bytes_compared": f.granted})
	}
}

// ---------------------------------------------------------------- rapid properties

// TestPropQueueModel: free-running histories over all operations.
func TestPropQueueModel(t *testing.T) {
	rapid.Check(t, func(t *rapid.T) {
		w := runHistory(t, rapidSrc{t}, 40)
		record(w, "")
	})
}

// TestPropWireRead: a byte string that starts with a (well-formed, truncated,
// overlong, oversized) length prefix is cut into compartments at arbitrary
// places and read with a short script of number/block/get calls. This puts the
// failure paths of the composite readers in the majority of cases.
func TestPropWireRead(t *testing.T) {
	rapid.Check(t, func(t *rapid.T) {
		s := rapidSrc{t}
		body := genData(s)
		var prefix []byte
		var l uint64
		cls := ""
		switch pick(s, "prefixkind", []int{4, 3, 3, 4, 3, 2}) {
		case 0:
			l, cls = uint64(len(body)), "prefix_exact"
		case 1:
			l, cls = uint64(s.choice("shorter", len(body)+1)), "prefix_shorter"
		case 2:
			l, cls = uint64(len(body)+1+s.choice("over", 3)), "prefix_slightly_too_long"
		case 3:
			l, cls = genU64(s), "prefix_any_number"
			if !allocBounded && l > uint64(len(body))+(1<<20) && l <= 1<<48 {
				l |= 1 << 50 // see allocBounded
			}
		case 4:
			// overlong (non-minimal) encoding of a fitting length
			l, cls = uint64(s.choice("shorter", len(body)+1)), "prefix_nonminimal"
			prefix = refEncode(l)
			prefix[len(prefix)-1] |= 0x80
			for i := s.choice("pad", 3); i > 0; i-- {
				prefix = append(prefix, 0x80)
			}
			prefix = append(prefix, 0x00)
		default:
			// truncated: continuation bit on the last byte held
			cls = "prefix_truncated"
			prefix = append(refEncode(genU64(s)), nil...)
			prefix[len(prefix)-1] |= 0x80
			body = nil
		}
		if prefix == nil {
			prefix = refEncode(l)
		}
		wire := cat(prefix, body)
		// cut into compartments
		var parts [][]byte
		rest := wire
		for len(rest) > 0 {
			k := 1 + s.choice("cut", len(rest))
			if s.choice("cutsmall", 2) == 0 && k > 3 {
				k = 1 + s.choice("cut3", 3)
			}
			parts = append(parts, rest[:k])
			rest = rest[k:]
			if s.choice("emptypart", 6) == 0 {
				parts = append(parts, []byte{})
			}
		}
		w := newWorld(t)
		mode := s.choice("build", 4)
		switch {
		case len(parts) == 0:
			w.apply(op{kind: opNew, mode: newEmpty})
		case mode == 0:
			w.apply(op{kind: opNew, mode: newMany, parts: parts})
		case mode == 1:
			w.apply(op{kind: opNew, mode: newEmpty})
			for _, p := range parts {
				w.apply(op{kind: opAppend, data: p})
			}
		case mode == 2:
			w.apply(op{kind: opNew, mode: newZero})
			for i := len(parts) - 1; i >= 0; i-- {
				w.apply(op{kind: opPrepend, data: parts[i]})
			}
		default:
			w.apply(op{kind: opNew, mode: newOne, data: wire})
		}
		readers := []opKind{opGetNextBlock, opGetNextBlockAsContainer, opN8, opN16, opN32, opN64, opGetNextBlock, opGetNextBlockAsContainer, opGet, opGetMax, opPeek, opWriteToSlice, opGetAsContainer}
		steps := 1 + s.choice("reads", 4)
		for i := 0; i < steps; i++ {
			o := op{kind: readers[s.choice("reader", len(readers))]}
			held := len(w.pool[0].m)
			switch o.kind {
			case opGet, opGetMax, opPeek, opGetAsContainer:
				o.n = genReq(s, held)
			case opWriteToSlice:
				o.n = s.choice("slice", held+3)
			}
			w.apply(o)
		}
		w.finish()
		stats.Class("wire_" + cls)
		record(w, "wire_")
	})
}

// ---------------------------------------------------------------- native fuzzing

// FuzzHistory: the fuzz input is the decision stream of the same generator.
func FuzzHistory(f *testing.F) {
	f.Add([]byte{})
	f.Add([]byte{0, 0, 5, 1, 2, 3})
	f.Add([]byte{3, 3, 1, 2, 9, 9, 9, 20, 14, 0, 0, 22, 0, 13, 0, 2})
	f.Add([]byte{0, 30, 2, 0, 5, 0xff, 0xff, 0xff, 0xff, 0xff, 0xff, 0xff, 0xff, 1, 0, 0})
	f.Add([]byte{7, 10, 0, 0, 3, 4, 1, 2, 3, 4, 21, 0, 21, 0, 13, 0, 9, 19, 0, 10})
	f.Add([]byte{1, 25, 19, 0, 0, 13, 0, 2, 16, 0, 9, 22, 0, 26, 0})
	f.Add([]byte{4, 40, 1, 0, 6, 1, 0, 6, 1, 0, 6, 1, 0, 6, 1, 0, 6, 1, 0, 6, 11, 0, 3, 3, 1, 2, 3, 14, 0})
	// thirty times AppendContainer(c0) on c0 (found by the fuzzer: unbounded this doubles the compartment list until the process dies, see growthBounded)
	f.Add(append([]byte{0xff, 0xff, 0x00, 0x10, 0x00}, append(bytes.Repeat([]byte{0x20}, 32), 0)...))
	f.Fuzz(func(t *testing.T, in []byte) {
		if len(in) > 600 {
			return
		}
		runHistory(t, &byteSrc{b: in}, 60)
	})
}

// FuzzWire: the fuzz input is the content of the queue; the first byte selects
// how it is cut and which reader script runs.
func FuzzWire(f *testing.F) {
	f.Add([]byte{0, 3, 1, 2, 3})
	f.Add([]byte{1, 0})
	f.Add([]byte{2, 0x80})
	f.Add([]byte{3, 0xff, 0xff, 0xff, 0xff, 0xff, 0xff, 0xff, 0xff, 0xff, 0x01, 7})
	f.Add([]byte{4, 0x80, 0x80, 0x80, 0x80, 0x80, 0x80, 0x80, 0x80, 0x80, 0x01})
	f.Add([]byte{5, 0x81, 0x00, 9})
	f.Add([]byte{6, 0x05, 1, 2})
	f.Add([]byte{7, 0x80, 0x80, 0x80, 0x80, 0x80, 0x80, 0x80, 0x80, 0x80, 0x02})
	f.Fuzz(func(t *testing.T, in []byte) {
		if len(in) == 0 || len(in) > 400 {
			return
		}
		sel, wire := int(in[0]), in[1:]
		if !allocBounded {
			if v, k, _, st := refDecode(wire); st == refOK && v > uint64(len(wire)-k)+(1<<20) && v <= 1<<48 {
				return
			}
		}
		w := newLightWorld(t)
		// cut after every (sel%4+1) bytes
		step := sel%4 + 1
		var parts [][]byte
		for i := 0; i < len(wire); i += step {
			j := i + step
			if j > len(wire) {
				j = len(wire)
			}
			parts = append(parts, wire[i:j])
		}
		w.apply(op{kind: opNew, mode: newMany, parts: parts})
		scripts := [][]opKind{
			{opGetNextBlock, opGetNextBlock},
			{opGetNextBlockAsContainer, opGetNextBlock},
			{opN8, opN16, opN32, opN64},
			{opN64, opGetNextBlock},
			{opN16, opGetNextBlockAsContainer},
			{opGetNextBlock, opN8},
			{opN32, opN32, opGetNextBlock},
			{opGetNextBlock, opGetNextBlockAsContainer, opN64},
		}
		for _, k := range scripts[(sel/4)%len(scripts)] {
			w.apply(op{kind: k})
		}
		w.finish()
	})
}
