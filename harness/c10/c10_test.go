// Package c10 decides C10: varint pack/unpack are exact inverses with exact
// byte accounting; unpacking and block extraction are total.
package c10

import (
	"bytes"
	"encoding/hex"
	"fmt"
	"testing"

	"github.com/safing/portbase/formats/varint"
	"pgregory.net/rapid"

	"verifharness/internal/stats"
)

func TestMain(m *testing.M) { stats.Main(m) }

// ---------------------------------------------------------------- reference

type refStatus int

const (
	refOK refStatus = iota
	refTruncated
	refOverflow
)

// refDecode is an independent LEB128 (base-128, little-endian groups) decoder
// for 64-bit unsigned integers.
func refDecode(b []byte) (v uint64, n int, minimal bool, st refStatus) {
	for i := 0; i < len(b); i++ {
		c := b[i]
		if i == 9 {
			// tenth byte may only contribute bit 63 and must terminate
			if c > 1 {
				return 0, 0, false, refOverflow
			}
		}
		if i > 9 {
			return 0, 0, false, refOverflow
		}
		v |= uint64(c&0x7f) << (7 * uint(i))
		if c&0x80 == 0 {
			return v, i + 1, i == 0 || c != 0, refOK
		}
	}
	return 0, 0, false, refTruncated
}

// refEncode is the shortest base-128 encoding.
func refEncode(v uint64) []byte {
	var out []byte
	for {
		c := byte(v & 0x7f)
		v >>= 7
		if v != 0 {
			out = append(out, c|0x80)
		} else {
			return append(out, c)
		}
	}
}

type fataler interface {
	Fatalf(format string, args ...any)
}

func safe(t fataler, what string, in []byte, f func()) {
	defer func() {
		if r := recover(); r != nil {
			t.Fatalf("%s panicked on input %x: %v", what, in, r)
		}
	}()
	f()
}

// checkUnpack compares one UnpackN against the reference on an arbitrary input.
func checkUnpack(t fataler, name string, width uint, in []byte, got uint64, n int, err error) {
	v, rn, minimal, st := refDecode(in)
	max := ^uint64(0)
	if width < 64 {
		max = 1<<width - 1
	}
	if err == nil {
		if st != refOK {
			t.Fatalf("%s(%x) succeeded with (%d,%d) but the input is not a complete varint (reference status %d)", name, in, got, n, st)
		}
		if n < 0 || n > len(in) {
			t.Fatalf("%s(%x) reports %d consumed bytes of %d present", name, in, n, len(in))
		}
		if got != v || n != rn {
			t.Fatalf("%s(%x) = (%d, %d), reference decode = (%d, %d)", name, in, got, n, v, rn)
		}
		if v > max {
			t.Fatalf("%s(%x) accepted %d which exceeds %d bits", name, in, v, width)
		}
		return
	}
	// error: must not be a minimal in-range encoding
	if st == refOK && minimal && v <= max {
		t.Fatalf("%s(%x) returned error %q for the shortest encoding of %d", name, in, err, v)
	}
}

func checkAllUnpack(t fataler, in []byte) {
	safe(t, "Unpack8", in, func() {
		v, n, err := varint.Unpack8(in)
		checkUnpack(t, "Unpack8", 8, in, uint64(v), n, err)
	})
	safe(t, "Unpack16", in, func() {
		v, n, err := varint.Unpack16(in)
		checkUnpack(t, "Unpack16", 16, in, uint64(v), n, err)
	})
	safe(t, "Unpack32", in, func() {
		v, n, err := varint.Unpack32(in)
		checkUnpack(t, "Unpack32", 32, in, uint64(v), n, err)
	})
	safe(t, "Unpack64", in, func() {
		v, n, err := varint.Unpack64(in)
		checkUnpack(t, "Unpack64", 64, in, v, n, err)
	})
	checkBlock(t, in)
}

func checkBlock(t fataler, in []byte) {
	safe(t, "GetNextBlock", in, func() {
		blk, total, err := varint.GetNextBlock(in)
		l, n, minimal, st := refDecode(in)
		if err == nil {
			if st != refOK {
				t.Fatalf("GetNextBlock(%x) succeeded on an incomplete/overflowing length prefix", in)
			}
			if l > uint64(len(in)-n) {
				t.Fatalf("GetNextBlock(%x) succeeded although the prefix announces %d bytes and %d are present", in, l, len(in)-n)
			}
			if total != n+int(l) {
				t.Fatalf("GetNextBlock(%x) reports total length %d, want %d", in, total, n+int(l))
			}
			if !bytes.Equal(blk, in[n:n+int(l)]) || len(blk) != int(l) {
				t.Fatalf("GetNextBlock(%x) returned block %x, want %x", in, blk, in[n:n+int(l)])
			}
			return
		}
		if total != 0 || blk != nil {
			t.Fatalf("GetNextBlock(%x) returned error together with data (%x,%d)", in, blk, total)
		}
		if st == refOK && minimal && l <= uint64(len(in)-n) {
			t.Fatalf("GetNextBlock(%x) returned error %q for a complete block of length %d", in, err, l)
		}
	})
}

// checkPack: pack -> unpack round trip, shortest form, advertised size.
func checkPack(t fataler, width uint, v uint64) {
	var p []byte
	switch width {
	case 8:
		p = varint.Pack8(uint8(v))
	case 16:
		p = varint.Pack16(uint16(v))
	case 32:
		p = varint.Pack32(uint32(v))
	case 64:
		p = varint.Pack64(v)
	}
	want := refEncode(v)
	if !bytes.Equal(p, want) {
		t.Fatalf("Pack%d(%d) = %x, shortest base-128 form is %x", width, v, p, want)
	}
	if sz := varint.EncodedSize(v); sz != len(p) {
		t.Fatalf("EncodedSize(%d) = %d but Pack%d produced %d bytes", v, sz, width, len(p))
	}
	// with trailing garbage the consumed count must still point exactly behind the varint
	for _, tail := range [][]byte{nil, {0x00}, {0xff, 0x01}} {
		in := append(append([]byte{}, p...), tail...)
		var got uint64
		var n int
		var err error
		safe(t, fmt.Sprintf("Unpack%d", width), in, func() {
			switch width {
			case 8:
				var x uint8
				x, n, err = varint.Unpack8(in)
				got = uint64(x)
			case 16:
				var x uint16
				x, n, err = varint.Unpack16(in)
				got = uint64(x)
			case 32:
				var x uint32
				x, n, err = varint.Unpack32(in)
				got = uint64(x)
			case 64:
				got, n, err = varint.Unpack64(in)
			}
		})
		if err != nil {
			t.Fatalf("Unpack%d(Pack%d(%d)=%x + tail %x) failed: %v", width, width, v, p, tail, err)
		}
		if got != v || n != len(p) {
			t.Fatalf("Unpack%d(Pack%d(%d)=%x + tail %x) = (%d, %d), want (%d, %d)", width, width, v, p, tail, got, n, v, len(p))
		}
	}
}

// ---------------------------------------------------------------- exhaustive

func TestExhaustiveNarrowWidths(t *testing.T) {
	for v := uint64(0); v < 1<<8; v++ {
		checkPack(t, 8, v)
	}
	for v := uint64(0); v < 1<<16; v++ {
		checkPack(t, 16, v)
	}
	// every narrow value through the wider packers as well
	for v := uint64(0); v < 1<<16; v++ {
		checkPack(t, 32, v)
		checkPack(t, 64, v)
	}
	stats.CaseN(1<<8+3*(1<<16), 1<<8-128+3*(1<<16-128), "exhaustive_pack_8_16")
	stats.Exhaustive("Pack/Unpack of all 2^8 and 2^16 values")
	stats.Sample("exhaustive_pack", map[string]any{"width": 16, "value": 300, "packed": hex.EncodeToString(varint.Pack16(300))})
}

func TestExhaustiveBoundaries(t *testing.T) {
	n := int64(0)
	for k := uint(0); k <= 64; k++ {
		for d := -3; d <= 3; d++ {
			var base uint64
			if k == 64 {
				base = 0
			} else {
				base = 1 << k
			}
			v := base + uint64(int64(d))
			// every unpacker sees the encoding of every boundary value (in range or not), with and without a tail
			checkAllUnpack(t, refEncode(v))
			checkAllUnpack(t, append(refEncode(v), 0x01))
			checkPack(t, 64, v)
			if v <= 1<<32-1 {
				checkPack(t, 32, v)
			}
			n++
		}
	}
	stats.CaseN(n, n-10, "exhaustive_bit_boundaries")
}

func TestExhaustiveShortByteStrings(t *testing.T) {
	var cnt, nontriv int64
	buf := make([]byte, 3)
	checkAllUnpack(t, nil)
	cnt++
	for a := 0; a < 256; a++ {
		buf[0] = byte(a)
		checkAllUnpack(t, buf[:1])
		cnt++
		for b := 0; b < 256; b++ {
			buf[1] = byte(b)
			checkAllUnpack(t, buf[:2])
			cnt++
			if a >= 128 {
				nontriv++
			}
			for c := 0; c < 256; c++ {
				buf[2] = byte(c)
				checkAllUnpack(t, buf[:3])
				cnt++
				if a >= 128 {
					nontriv++
				}
			}
		}
	}
	stats.CaseN(cnt, nontriv, "exhaustive_bytes_len_le_3")
	stats.Exhaustive("all byte strings of length <= 3 through Unpack8/16/32/64 and GetNextBlock")
	stats.Sample("exhaustive_bytes", map[string]any{"input": "ff01", "meaning": "every byte string up to length 3 is decoded by all five functions and compared with the reference"})
}

// ---------------------------------------------------------------- generated

func genU64() *rapid.Generator[uint64] {
	return rapid.Custom(func(t *rapid.T) uint64 {
		switch rapid.IntRange(0, 3).Draw(t, "kind") {
		case 0:
			return rapid.Uint64().Draw(t, "uniform")
		case 1:
			k := rapid.IntRange(0, 9).Draw(t, "group")
			d := rapid.IntRange(-2, 2).Draw(t, "delta")
			return uint64(1)<<(7*uint(k)) + uint64(int64(d))
		case 2:
			k := rapid.IntRange(0, 63).Draw(t, "bit")
			d := rapid.IntRange(-2, 2).Draw(t, "delta")
			return uint64(1)<<uint(k) + uint64(int64(d))
		default:
			return ^uint64(0) - uint64(rapid.IntRange(0, 300).Draw(t, "fromtop"))
		}
	})
}

func TestPropPackRoundTrip(t *testing.T) {
	rapid.Check(t, func(t *rapid.T) {
		v := genU64().Draw(t, "v")
		checkPack(t, 64, v)
		checkPack(t, 32, uint64(uint32(v)))
		checkPack(t, 16, uint64(uint16(v)))
		checkPack(t, 8, uint64(uint8(v)))
		stats.Case(fmt.Sprintf("pack:%d", v), v >= 128, fmt.Sprintf("pack_len_%d", len(refEncode(v))))
		if stats.WantSample("pack") {
			stats.Sample("pack", map[string]any{"value": v, "packed64": hex.EncodeToString(varint.Pack64(v))})
		}
	})
}

// genVarintish draws byte strings biased towards continuation bits.
func genVarintish() *rapid.Generator[[]byte] {
	return rapid.Custom(func(t *rapid.T) []byte {
		n := rapid.IntRange(0, 12).Draw(t, "len")
		out := make([]byte, n)
		for i := range out {
			switch rapid.IntRange(0, 5).Draw(t, "bytekind") {
			case 0:
				out[i] = rapid.Byte().Draw(t, "b")
			case 1:
				out[i] = 0x80
			case 2:
				out[i] = 0xff
			case 3:
				out[i] = 0x80 | rapid.Byte().Draw(t, "b")
			case 4:
				out[i] = byte(rapid.IntRange(0, 2).Draw(t, "small"))
			default:
				out[i] = 0x7f & rapid.Byte().Draw(t, "b")
			}
		}
		return out
	})
}

func TestPropArbitraryBytes(t *testing.T) {
	rapid.Check(t, func(t *rapid.T) {
		in := genVarintish().Draw(t, "in")
		checkAllUnpack(t, in)
		_, n, _, st := refDecode(in)
		stats.Case("bytes:"+string(in), len(in) >= 2 && in[0] >= 0x80, fmt.Sprintf("ref_status_%d", st), fmt.Sprintf("varint_len_%d", n))
		if stats.WantSample("bytes") && len(in) > 3 {
			stats.Sample("bytes", map[string]any{"input": hex.EncodeToString(in), "ref_status": st})
		}
	})
}

func TestPropBlocks(t *testing.T) {
	rapid.Check(t, func(t *rapid.T) {
		avail := rapid.IntRange(0, 300).Draw(t, "avail")
		var l uint64
		switch rapid.IntRange(0, 4).Draw(t, "lenkind") {
		case 0:
			l = uint64(avail)
		case 1:
			l = uint64(avail + rapid.IntRange(-2, 2).Draw(t, "d"))
		case 2:
			l = genU64().Draw(t, "huge")
		case 3:
			l = uint64(rapid.IntRange(0, avail).Draw(t, "shorter"))
		default:
			// around 2^63 and 2^64
			l = uint64(1)<<63 + uint64(int64(rapid.IntRange(-3, 3).Draw(t, "d63")))
		}
		body := rapid.SliceOfN(rapid.Byte(), avail, avail).Draw(t, "body")
		in := append(refEncode(l), body...)
		checkBlock(t, in)
		checkAllUnpack(t, in)
		// PrependLength then GetNextBlock is the identity
		pl := varint.PrependLength(body)
		blk, total, err := varint.GetNextBlock(append(pl, 0xAA))
		if err != nil || !bytes.Equal(blk, body) || total != len(pl) {
			t.Fatalf("GetNextBlock(PrependLength(%d bytes)+1) = (%d bytes, %d, %v), want (%d bytes, %d, nil)", len(body), len(blk), total, err, len(body), len(pl))
		}
		cls := "block_fits"
		if l > uint64(avail) {
			cls = "block_too_long"
		}
		if l >= 1<<63 {
			cls = "block_len_ge_2^63"
		}
		stats.Case(fmt.Sprintf("block:%d:%d:%x", l, avail, body), true, cls)
		if stats.WantSample(cls) {
			stats.Sample(cls, map[string]any{"length_prefix": l, "bytes_available": avail})
		}
	})
}

// ---------------------------------------------------------------- fuzz

func FuzzUnpack(f *testing.F) {
	for _, s := range [][]byte{
		{}, {0x00}, {0x7f}, {0x80, 0x01}, {0xff, 0x01}, {0xff, 0xff, 0x03},
		{0xff, 0xff, 0xff, 0xff, 0xff, 0xff, 0xff, 0xff, 0xff, 0x01},
		{0xff, 0xff, 0xff, 0xff, 0xff, 0xff, 0xff, 0xff, 0xff, 0x02},
		{0x80, 0x80, 0x80, 0x80, 0x80, 0x80, 0x80, 0x80, 0x80, 0x01, 0x00},
		{0x80, 0x80, 0x80, 0x80, 0x80, 0x80, 0x80, 0x80, 0x7f},
		{0x03, 1, 2, 3}, {0x04, 1, 2, 3},
	} {
		f.Add(s)
	}
	f.Fuzz(func(t *testing.T, in []byte) {
		checkAllUnpack(t, in)
	})
}

// ---------------------------------------------------------------- regressions (fixed findings)

func TestRegUnpack8TwoByteForm(t *testing.T) {
	for v := uint64(128); v < 256; v++ {
		checkPack(t, 8, v)
	}
}

func TestRegGetNextBlockHugeLength(t *testing.T) {
	for _, l := range []uint64{1 << 63, 1<<63 + 1, ^uint64(0), ^uint64(0) - 1, 1<<63 - 1} {
		checkBlock(t, append(refEncode(l), 1, 2, 3))
	}
}
