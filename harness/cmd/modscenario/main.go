//go:build verif

// Command modscenario executes one module-lifecycle scenario (see verifharness/modsim) in its own process.
package main

import "verifharness/modsim"

func main() { modsim.ChildMain() }
