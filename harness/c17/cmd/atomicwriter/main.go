// Command atomicwriter performs exactly ONE write operation of portbase's
// atomic-replace primitives, described by a JSON case file (shared.Spec). It is
// run by the C17 test under tools/sysstep, which kills it before its K-th
// file-system-mutating system call below the sandbox directory.
//
// Everything the process touches besides the operation itself (case file, new
// content) lives outside the sandbox and is only read. Exit status: 0 the
// operation behaved as the case expects (success, or an error when
// expect_error is set), 3 otherwise, 2 bad usage.
package main

import (
	"bytes"
	"context"
	"encoding/json"
	"errors"
	"fmt"
	"io"
	"os"

	"github.com/safing/jess"
	"github.com/safing/portbase/database/storage/fstree"
	"github.com/safing/portbase/updater"
	"github.com/safing/portbase/utils"
	"github.com/safing/portbase/utils/renameio"

	"verifharness/c17/shared"
)

// chunkReader hands out at most chunk bytes per Read, has no WriteTo, and can
// fail after a given number of bytes.
type chunkReader struct {
	data      []byte
	off       int
	chunk     int
	failAfter int
}

var errInjected = errors.New("injected read failure")

func (c *chunkReader) Read(p []byte) (int, error) {
	if c.failAfter >= 0 && c.off >= c.failAfter {
		return 0, errInjected
	}
	if c.off >= len(c.data) {
		return 0, io.EOF
	}
	n := len(p)
	if c.chunk > 0 && n > c.chunk {
		n = c.chunk
	}
	if n > len(c.data)-c.off {
		n = len(c.data) - c.off
	}
	if c.failAfter >= 0 && c.off+n > c.failAfter {
		n = c.failAfter - c.off
	}
	copy(p, c.data[c.off:c.off+n])
	c.off += n
	return n, nil
}

func opts(s *shared.Spec) *utils.AtomicFileOptions {
	if s.NilOpts {
		return nil
	}
	return &utils.AtomicFileOptions{Mode: os.FileMode(s.Perm), TempDir: s.TempDir}
}

func registry(s *shared.Spec) (*updater.ResourceRegistry, error) {
	reg := &updater.ResourceRegistry{
		Name:       "c17",
		UpdateURLs: []string{s.URL},
		Online:     s.URL != "",
	}
	if s.Recipient != "" {
		rcpt, err := jess.SignetFromBase58(s.Recipient)
		if err != nil {
			return nil, fmt.Errorf("recipient: %w", err)
		}
		ts := jess.NewMemTrustStore()
		if err := ts.StoreSignet(rcpt); err != nil {
			return nil, err
		}
		reg.Verification = map[string]*updater.VerificationOptions{
			"": {TrustStore: ts, DownloadPolicy: updater.SignaturePolicyRequire, DiskLoadPolicy: updater.SignaturePolicyRequire},
		}
	}
	if err := reg.Initialize(utils.NewDirStructure(s.Storage, 0o755)); err != nil {
		return nil, err
	}
	return reg, nil
}

func run(s *shared.Spec) error {
	switch s.Op {
	case shared.OpWriteFile:
		data, err := os.ReadFile(s.Src)
		if err != nil {
			return err
		}
		return renameio.WriteFile(s.Dest, data, os.FileMode(s.Perm))

	case shared.OpSymlink:
		return renameio.Symlink(s.Src, s.Dest)

	case shared.OpCreateAtomic:
		data, err := os.ReadFile(s.Src)
		if err != nil {
			return err
		}
		var r io.Reader = bytes.NewReader(data)
		if s.Chunk > 0 || s.FailAfter >= 0 {
			r = &chunkReader{data: data, chunk: s.Chunk, failAfter: s.FailAfter}
		}
		return utils.CreateAtomic(s.Dest, r, opts(s))

	case shared.OpCopyAtomic:
		return utils.CopyFileAtomic(s.Dest, s.Src, opts(s))

	case shared.OpReplaceAtomic:
		return utils.ReplaceFileAtomic(s.Dest, s.Src, opts(s))

	case shared.OpFstreePut:
		data, err := os.ReadFile(s.Src)
		if err != nil {
			return err
		}
		st, err := fstree.NewFSTree(shared.FstreeDBName, s.Base)
		if err != nil {
			return err
		}
		_, err = st.Put(shared.Record(s.Key, data))
		return err

	case shared.OpGetFile:
		reg, err := registry(s)
		if err != nil {
			return err
		}
		idx := &updater.Index{Path: "stable.json", AutoDownload: true}
		if err := reg.AddResource(s.Identifier, s.Version, idx, s.Available, true, false); err != nil {
			return err
		}
		reg.SelectVersions()
		f, err := reg.GetFile(s.Identifier)
		if err != nil {
			return err
		}
		if f.Path() != s.Dest {
			return fmt.Errorf("library stores at %s, case expects %s", f.Path(), s.Dest)
		}
		return nil

	case shared.OpDownloadAll:
		reg, err := registry(s)
		if err != nil {
			return err
		}
		reg.MandatoryUpdates = []string{s.Identifier}
		idx := &updater.Index{Path: "stable.json", AutoDownload: true}
		if err := reg.AddResource(s.Identifier, s.Version, idx, s.Available, true, false); err != nil {
			return err
		}
		reg.SelectVersions()
		return reg.DownloadUpdates(context.Background(), false)

	case shared.OpUpdateIndexes:
		reg, err := registry(s)
		if err != nil {
			return err
		}
		reg.AddIndex(updater.Index{Path: "stable.json", AutoDownload: true})
		return reg.UpdateIndexes(context.Background())

	case shared.OpUnpackArchive:
		reg, err := registry(s)
		if err != nil {
			return err
		}
		if err := reg.AddResource(s.Identifier, s.Version, nil, true, false, false); err != nil {
			return err
		}
		reg.SelectVersions()
		reg.AutoUnpack = []string{s.Identifier}
		return reg.UnpackResources()

	case shared.OpFileUnpack:
		reg, err := registry(s)
		if err != nil {
			return err
		}
		if err := reg.AddResource(s.Identifier, s.Version, nil, true, false, false); err != nil {
			return err
		}
		reg.SelectVersions()
		f, err := reg.GetFile(s.Identifier)
		if err != nil {
			return err
		}
		p, err := f.Unpack(s.Suffix, updater.UnpackGZIP)
		if err != nil {
			return err
		}
		if p != s.Dest {
			return fmt.Errorf("library unpacks to %s, case expects %s", p, s.Dest)
		}
		return nil
	}
	return fmt.Errorf("unknown op %q", s.Op)
}

func main() {
	if len(os.Args) != 2 {
		fmt.Fprintln(os.Stderr, "usage: atomicwriter <case.json>")
		os.Exit(2)
	}
	raw, err := os.ReadFile(os.Args[1])
	if err != nil {
		fmt.Fprintln(os.Stderr, err)
		os.Exit(2)
	}
	s := &shared.Spec{FailAfter: -1}
	if err := json.Unmarshal(raw, s); err != nil {
		fmt.Fprintln(os.Stderr, err)
		os.Exit(2)
	}
	err = run(s)
	switch {
	case err == nil && !s.ExpectError:
		os.Exit(0)
	case err != nil && s.ExpectError:
		fmt.Fprintln(os.Stderr, "expected error:", err)
		os.Exit(0)
	case err != nil && s.ErrorAllowed:
		fmt.Fprintln(os.Stderr, "allowed error:", err)
		os.Exit(4)
	case err != nil:
		fmt.Fprintln(os.Stderr, "operation failed:", err)
		os.Exit(3)
	default:
		fmt.Fprintln(os.Stderr, "operation succeeded although an error was expected")
		os.Exit(3)
	}
}
