package c17

// Case descriptions, fixtures and the evaluation of one (case, K) run.

import (
	"archive/zip"
	"bytes"
	"compress/flate"
	"compress/gzip"
	"encoding/json"
	"fmt"
	"hash/crc32"
	"net/http"
	"net/http/httptest"
	"os"
	"path/filepath"
	"strings"
	"sync"
	"sync/atomic"
	"syscall"

	"github.com/safing/jess"
	"github.com/safing/jess/filesig"
	"github.com/safing/jess/lhash"

	"verifharness/c17/shared"
	"verifharness/internal/stats"
)

// Destination states.
const (
	stAbsent      = "absent"
	stPresent     = "present"
	stPresentMode = "present_other_mode"
	stPresentFile = "present_regular_file" // Symlink over a regular file
	stBlocked     = "blocked_by_file"      // UnpackArchive: a file sits where the directory goes
	stPresentDir  = "present_empty_dir"    // Symlink where an empty directory sits: rename(2) cannot replace it; the operation may fail, the directory must not vanish meanwhile
)

// Temp-location variants.
const (
	tmpSandbox  = "TMPDIR_same_mount"  // $TMPDIR inside the sandbox: renameio uses it
	tmpForeign  = "TMPDIR_other_mount" // $TMPDIR on another file system: renameio falls back to the destination's directory
	tmpExplicit = "explicit_TempDir"   // AtomicFileOptions.TempDir
	// AtomicFileOptions.TempDir on another file system than the destination: the finished temporary file cannot be
	// renamed into place. The operation may fail (it does) or get the content across some other atomic way; it must
	// not write the destination in place.
	tmpExplicitForeign = "explicit_TempDir_other_mount"
	// AtomicFileOptions.TempDir names a directory that does not exist (any more). The operation may fail (it does) or
	// cope; whatever it writes before a crash, the caller-specified temporary location is the only place where
	// something may be left - not the destination's directory.
	tmpExplicitMissing = "explicit_TempDir_that_does_not_exist"
)

type caseDef struct {
	Writer    string `json:"writer"` // variant name (statistics)
	Op        string `json:"op"`
	State     string `json:"state"`
	Tmp       string `json:"tmp"`
	OldSize   int    `json:"old_size"`
	NewSize   int    `json:"new_size"`
	OldSeed   uint64 `json:"old_seed"`
	NewSeed   uint64 `json:"new_seed"`
	OldMode   uint32 `json:"old_mode,omitempty"`
	Perm      uint32 `json:"perm,omitempty"`
	NilOpts   bool   `json:"nil_opts,omitempty"`
	Chunk     int    `json:"chunk,omitempty"`
	FailAfter int    `json:"fail_after"` // -1 = never
	Nested    bool   `json:"nested,omitempty"`
	Verify    bool   `json:"verify,omitempty"`
	SigOnly   bool   `json:"sig_only,omitempty"`
	StaleTmp  bool   `json:"stale_tmp,omitempty"`
	// BadArchive: the zip holds an entry below a directory it never creates, so
	// that extraction fails half way (a failed operation).
	BadArchive bool `json:"bad_archive,omitempty"`
	// Damage: the data of the archive's last file entry ends early ("truncated_stream", "overstated_size"): the
	// extraction fails, nothing may be published.
	Damage string `json:"damage,omitempty"`
	// FlakyServer: the first download attempt gets a truncated body (a failed
	// operation), the retry succeeds.
	FlakyServer bool `json:"flaky_server,omitempty"`
	// FlakyCloseDelimited: the failed first attempt announces no Content-Length (body delimited by the end of the
	// connection) and is cut mid-body; only the length of what arrived could tell that it is a fragment.
	FlakyCloseDelimited bool `json:"flaky_close_delimited,omitempty"`
	// FirstStatus: the first download attempt is answered with this status (206 with half of the file, 202 with a
	// status document, 204 without body) instead of 200: it is not the file and must not be published.
	FirstStatus int `json:"first_status,omitempty"`
	// CorruptFirst: the first attempt delivers a body of the right length that does not match the signed check sum
	// (signed downloads only): it is rejected and must not have been published at any moment.
	CorruptFirst bool `json:"corrupt_first,omitempty"`
}

func (c caseDef) id() string {
	b, _ := json.Marshal(c)
	return string(b)
}

func sizeClass(n int) string {
	switch {
	case n == 0:
		return "empty"
	case n < 64<<10:
		return "small"
	case n < 1<<20:
		return "medium"
	}
	return "multi_megabyte"
}

// ---------------------------------------------------------------- environment shared by all cases

var (
	scratchRoot string // on /dev/shm (sandbox, inputs)
	foreignRoot string // on another mount ($VERIF_SCRATCH, normally below /verif/.build)
	runCounter  atomic.Int64
	// foreignUsable: foreignRoot really is on another file system than the
	// sandbox (otherwise the "other mount" variant is run as "same mount")
	foreignUsable bool
	foreignWarn   sync.Once

	srvOnce  sync.Once
	srv      *httptest.Server
	srvFiles sync.Map // "/token/path" -> []byte

	signOnce      sync.Once
	signSignet    *jess.Signet
	signStore     *jess.MemTrustStore
	signRecipient string
	signErr       error
)

func setupScratch() error {
	var err error
	scratchRoot, err = os.MkdirTemp("/dev/shm", "c17-")
	if err != nil {
		return err
	}
	scratchRoot, err = filepath.EvalSymlinks(scratchRoot)
	if err != nil {
		return err
	}
	base := os.Getenv("VERIF_SCRATCH")
	if base == "" {
		base = os.TempDir()
	}
	foreignRoot, err = os.MkdirTemp(base, "c17-foreign-")
	if err != nil {
		return err
	}
	foreignRoot, err = filepath.EvalSymlinks(foreignRoot)
	if err != nil {
		return err
	}
	var a, b syscall.Stat_t
	if err := syscall.Stat(scratchRoot, &a); err != nil {
		return err
	}
	if err := syscall.Stat(foreignRoot, &b); err != nil {
		return err
	}
	foreignUsable = a.Dev != b.Dev
	return nil
}

func cleanupScratch() {
	if scratchRoot != "" {
		_ = os.RemoveAll(scratchRoot)
	}
	if foreignRoot != "" {
		_ = os.RemoveAll(foreignRoot)
	}
	if srv != nil {
		srv.Close()
	}
}

// served is one file of the loopback update server.
type served struct {
	data []byte
	// truncateFirst > 0: that many requests get a truncated body first
	truncateFirst atomic.Int32
	// closeDelimited: the truncated answers carry no Content-Length
	closeDelimited bool
	// firstStatus != 0: the first request is answered with this status and something that is not the file
	firstStatus int
	// corruptFirst: the first request gets a body of the right length with other bytes (a damaged mirror)
	corruptFirst bool
}

func serve(path string, data []byte, truncateFirst int, closeDelimited ...bool) {
	sv := &served{data: data, closeDelimited: len(closeDelimited) > 0 && closeDelimited[0]}
	sv.truncateFirst.Store(int32(truncateFirst))
	srvFiles.Store(path, sv)
}

// serveCorruptFirst: the first request gets the right number of wrong bytes, later ones the file.
func serveCorruptFirst(path string, data []byte) {
	sv := &served{data: data, corruptFirst: true}
	sv.truncateFirst.Store(1)
	srvFiles.Store(path, sv)
}

// serveOddFirst: the first request is answered with the given 2xx status (206, 202, 204), later ones with the file.
func serveOddFirst(path string, data []byte, status int) {
	sv := &served{data: data, firstStatus: status}
	sv.truncateFirst.Store(1)
	srvFiles.Store(path, sv)
}

func server() *httptest.Server {
	srvOnce.Do(func() {
		srv = httptest.NewServer(http.HandlerFunc(func(w http.ResponseWriter, r *http.Request) {
			v, ok := srvFiles.Load(r.URL.Path)
			if !ok {
				http.NotFound(w, r)
				return
			}
			sv := v.(*served)
			b := sv.data
			if sv.corruptFirst && sv.truncateFirst.Load() > 0 {
				sv.truncateFirst.Add(-1)
				bad := append([]byte{}, b...)
				for i := 0; i < len(bad); i += 97 {
					bad[i] ^= 0x5a
				}
				w.Header().Set("Content-Length", fmt.Sprint(len(bad)))
				w.Header().Set("Content-Type", "application/octet-stream")
				_, _ = w.Write(bad)
				return
			}
			if sv.firstStatus != 0 && sv.truncateFirst.Load() > 0 {
				// the first attempt is answered with another 2xx status and a well-formed body that is not the file
				sv.truncateFirst.Add(-1)
				part := []byte{}
				switch sv.firstStatus {
				case http.StatusPartialContent:
					part = b[:len(b)/2]
					w.Header().Set("Content-Range", fmt.Sprintf("bytes 0-%d/%d", len(part)-1, len(b)))
				case http.StatusAccepted:
					part = []byte("accepted, come back later\n")
				}
				if sv.firstStatus != http.StatusNoContent {
					w.Header().Set("Content-Length", fmt.Sprint(len(part)))
					w.Header().Set("Content-Type", "application/octet-stream")
				}
				w.WriteHeader(sv.firstStatus)
				_, _ = w.Write(part)
				return
			}
			if sv.closeDelimited && sv.truncateFirst.Load() > 0 {
				sv.truncateFirst.Add(-1)
				// no Content-Length, no chunking: the body ends where the connection ends - here in the middle
				if hj, ok := w.(http.Hijacker); ok {
					if conn, rw, err := hj.Hijack(); err == nil {
						_, _ = rw.WriteString("HTTP/1.1 200 OK\r\nContent-Type: application/octet-stream\r\nConnection: close\r\n\r\n")
						_, _ = rw.Write(b[:len(b)/2])
						_ = rw.Flush()
						_ = conn.Close()
					}
				}
				return
			}
			w.Header().Set("Content-Length", fmt.Sprint(len(b)))
			w.Header().Set("Content-Type", "application/octet-stream")
			if sv.truncateFirst.Add(-1) >= 0 {
				// announce everything, deliver a part, drop the connection: a failed download
				_, _ = w.Write(b[:len(b)/2])
				if f, ok := w.(http.Flusher); ok {
					f.Flush()
				}
				if hj, ok := w.(http.Hijacker); ok {
					if conn, _, err := hj.Hijack(); err == nil {
						_ = conn.Close()
					}
				}
				return
			}
			_, _ = w.Write(b)
		}))
	})
	return srv
}

func signer() error {
	signOnce.Do(func() {
		s, err := jess.GenerateSignet("Ed25519", 0)
		if err != nil {
			signErr = err
			return
		}
		s.ID = "c17-signing-key"
		rcpt, err := s.AsRecipient()
		if err != nil {
			signErr = err
			return
		}
		signStore = jess.NewMemTrustStore()
		if err := signStore.StoreSignet(s); err != nil {
			signErr = err
			return
		}
		if err := signStore.StoreSignet(rcpt); err != nil {
			signErr = err
			return
		}
		if err := rcpt.StoreKey(); err != nil {
			signErr = err
			return
		}
		signRecipient, signErr = rcpt.ToBase58()
		signSignet = s
	})
	return signErr
}

func signData(data []byte, meta map[string]string) ([]byte, error) {
	if err := signer(); err != nil {
		return nil, err
	}
	env := jess.NewUnconfiguredEnvelope()
	env.SuiteID = jess.SuiteSignV1
	env.Senders = []*jess.Signet{signSignet}
	letter, _, err := filesig.SignFileData(lhash.BLAKE2b_256.Digest(data), meta, env, signStore)
	if err != nil {
		return nil, err
	}
	return filesig.MakeSigFileSection(letter)
}

// ---------------------------------------------------------------- fixtures

func writeFileMode(p string, data []byte, mode os.FileMode) error {
	if err := os.MkdirAll(filepath.Dir(p), 0o755); err != nil {
		return err
	}
	if err := os.WriteFile(p, data, mode); err != nil {
		return err
	}
	return os.Chmod(p, mode)
}

func zipArchive(files map[string][]byte, order []string) []byte {
	var buf bytes.Buffer
	zw := zip.NewWriter(&buf)
	for _, name := range order {
		content := files[name]
		h := &zip.FileHeader{Name: name, Method: zip.Deflate}
		if content == nil {
			h.Name = name + "/"
			h.SetMode(os.ModeDir | 0o755)
			if _, err := zw.CreateHeader(h); err != nil {
				panic(err)
			}
			continue
		}
		h.SetMode(0o644)
		w, err := zw.CreateHeader(h)
		if err != nil {
			panic(err)
		}
		if _, err := w.Write(content); err != nil {
			panic(err)
		}
	}
	if err := zw.Close(); err != nil {
		panic(err)
	}
	return buf.Bytes()
}

// zipArchiveDamaged is zipArchive with the data of the last (or, with the suffix ":first", the first) file entry damaged: "truncated_stream" cuts the deflate
// stream before its final block, "overstated_size" announces more uncompressed bytes than the stream holds, "bad_crc"
// keeps data and sizes and spoils the checksum. The archives open fine; reading the entry fails.
func zipArchiveDamaged(files map[string][]byte, order []string, damage string) []byte {
	var buf bytes.Buffer
	zw := zip.NewWriter(&buf)
	// ":first" damages the first file entry instead (the entries behind it are intact)
	first := strings.HasSuffix(damage, ":first")
	damage = strings.TrimSuffix(damage, ":first")
	last := ""
	for _, name := range order {
		if files[name] != nil && (last == "" || !first) {
			last = name
		}
	}
	for _, name := range order {
		content := files[name]
		h := &zip.FileHeader{Name: name, Method: zip.Deflate}
		if content == nil {
			h.Name = name + "/"
			h.SetMode(os.ModeDir | 0o755)
			if _, err := zw.CreateHeader(h); err != nil {
				panic(err)
			}
			continue
		}
		h.SetMode(0o644)
		if name != last {
			w, err := zw.CreateHeader(h)
			if err != nil {
				panic(err)
			}
			if _, err := w.Write(content); err != nil {
				panic(err)
			}
			continue
		}
		var comp bytes.Buffer
		fw, _ := flate.NewWriter(&comp, flate.DefaultCompression)
		_, _ = fw.Write(content)
		_ = fw.Close()
		raw := comp.Bytes()
		h.CRC32 = crc32.ChecksumIEEE(content)
		h.UncompressedSize64 = uint64(len(content))
		switch damage {
		case "truncated_stream":
			raw = raw[:len(raw)*2/3]
		case "overstated_size":
			h.UncompressedSize64 += 1000
		case "bad_crc":
			// sizes and stream are right, the checksum in the header is not: the entry reads to its end and then fails
			h.CRC32 ^= 0x5a5a5a5a
		}
		h.CompressedSize64 = uint64(len(raw))
		w, err := zw.CreateRaw(h)
		if err != nil {
			panic(err)
		}
		if _, err := w.Write(raw); err != nil {
			panic(err)
		}
	}
	if err := zw.Close(); err != nil {
		panic(err)
	}
	return buf.Bytes()
}

// gzipMembers compresses b as k concatenated gzip members (what `cat a.gz b.gz`, pigz -i or bgzip produce): the
// uncompressed content of such a file is the concatenation of its members.
func gzipMembers(b []byte, k int) []byte {
	if k <= 1 || len(b) < k {
		return gzipBytes(b)
	}
	var out []byte
	// a short first member, the rest in equal parts
	cut := []int{0, 17 % len(b)}
	if cut[1] == 0 {
		cut[1] = 1
	}
	for i := 2; i < k; i++ {
		cut = append(cut, cut[1]+(len(b)-cut[1])*(i-1)/(k-1))
	}
	cut = append(cut, len(b))
	for i := 0; i+1 < len(cut); i++ {
		out = append(out, gzipBytes(b[cut[i]:cut[i+1]])...)
	}
	return out
}

func gzipBytes(b []byte) []byte {
	var buf bytes.Buffer
	zw := gzip.NewWriter(&buf)
	_, _ = zw.Write(b)
	_ = zw.Close()
	return buf.Bytes()
}

// built is a prepared run: sandbox populated, spec and expectation ready.
type built struct {
	dirs    *runDirs
	spec    *shared.Spec
	exp     *expectation
	cleanup func()
}

// build populates a fresh sandbox for the case and returns the writer's spec
// together with what the oracle accepts.
func build(c caseDef) (*built, error) {
	n := runCounter.Add(1)
	d, err := newRunDirs(filepath.Join(scratchRoot, fmt.Sprintf("run%06d", n)))
	if err != nil {
		return nil, err
	}
	b := &built{dirs: d, exp: &expectation{}}
	var cleanups []func()
	b.cleanup = func() {
		for _, f := range cleanups {
			f()
		}
		_ = os.RemoveAll(d.Base)
	}
	sb := d.Sandbox

	oldData := shared.MakeContent(c.OldSeed, c.OldSize)
	newData := shared.MakeContent(c.NewSeed, c.NewSize)
	oldMode := os.FileMode(0o644)
	if c.State == stPresentMode {
		oldMode = os.FileMode(c.OldMode)
	}

	// bystanders that must survive untouched
	sbTmp := filepath.Join(sb, "tmp")
	dst := filepath.Join(sb, "dst")
	stage := filepath.Join(sb, "stage")
	for _, p := range []string{sbTmp, dst, stage} {
		if err := os.MkdirAll(p, 0o755); err != nil {
			return nil, err
		}
		if err := writeFileMode(filepath.Join(p, "bystander.txt"), []byte("bystander in "+filepath.Base(p)+"\n"), 0o644); err != nil {
			return nil, err
		}
	}

	if c.Tmp == tmpForeign && !foreignUsable {
		foreignWarn.Do(func() {
			stats.Warn("no second mount available below $VERIF_SCRATCH: the TMPDIR_other_mount variant runs as TMPDIR_same_mount")
		})
		c.Tmp = tmpSandbox
	}
	if c.Tmp == tmpExplicitForeign && !foreignUsable {
		foreignWarn.Do(func() {
			stats.Warn("no second mount available below $VERIF_SCRATCH: the other-mount variants run on the same mount")
		})
		c.Tmp = tmpExplicit
	}
	foreignDir := ""
	switch c.Tmp {
	case tmpForeign, tmpExplicitForeign:
		f := filepath.Join(foreignRoot, fmt.Sprintf("tmp%06d", n))
		if err := os.MkdirAll(f, 0o755); err != nil {
			return nil, err
		}
		cleanups = append(cleanups, func() { _ = os.RemoveAll(f) })
		foreignDir = f
		d.TmpEnv = sbTmp
		if c.Tmp == tmpForeign {
			d.TmpEnv = f
		}
	default:
		d.TmpEnv = sbTmp
	}

	src := filepath.Join(d.In, "new.bin")
	spec := &shared.Spec{Op: c.Op, FailAfter: -1, Perm: c.Perm, NilOpts: c.NilOpts, Chunk: c.Chunk}
	b.spec = spec

	placeOld := func(p string, data []byte) error {
		switch c.State {
		case stPresent, stPresentMode, stPresentFile:
			return writeFileMode(p, data, oldMode)
		}
		return nil
	}
	renameioTemps := func(dest string) {
		pat := tempPattern(dest)
		b.exp.Temps = append(b.exp.Temps,
			tempRule{Dir: filepath.Dir(dest), Pattern: pat, Kind: "file"},
			tempRule{Dir: sbTmp, Pattern: pat, Kind: "file"},
			tempRule{Dir: stage, Pattern: pat, Kind: "file"},
		)
	}

	switch c.Op {
	case shared.OpWriteFile, shared.OpCreateAtomic, shared.OpCopyAtomic, shared.OpReplaceAtomic:
		dest := filepath.Join(dst, "target.bin")
		spec.Dest = dest
		spec.Src = src
		if err := writeFileMode(src, newData, 0o640); err != nil {
			return nil, err
		}
		if err := placeOld(dest, oldData); err != nil {
			return nil, err
		}
		if c.Tmp == tmpExplicit {
			spec.TempDir = stage
		}
		if c.Tmp == tmpExplicitForeign {
			spec.TempDir = foreignDir
			spec.ErrorAllowed = true
		}
		if c.Tmp == tmpExplicitMissing {
			spec.TempDir = filepath.Join(stage, "gone")
			spec.ErrorAllowed = true
		}
		tg := target{Path: dest, Kind: "file", NewData: newData, SingleFile: true}
		if c.Op == shared.OpCreateAtomic && c.FailAfter >= 0 {
			spec.FailAfter = c.FailAfter
			spec.ExpectError = true
			tg.Untouched = true
		}
		b.exp.Targets = []target{tg}
		if c.Tmp == tmpExplicitMissing {
			b.exp.Temps = append(b.exp.Temps, tempRule{Dir: spec.TempDir, Pattern: tempPattern(dest), Kind: "file"})
		} else {
			renameioTemps(dest)
		}

	case shared.OpSymlink:
		dest := filepath.Join(dst, "current")
		spec.Dest = dest
		spec.Src = fmt.Sprintf("releases/v%d/data", c.NewSeed)
		switch c.State {
		case stPresent:
			if err := os.Symlink(fmt.Sprintf("releases/v%d/data", c.OldSeed), dest); err != nil {
				return nil, err
			}
		case stPresentFile:
			if err := writeFileMode(dest, oldData, 0o644); err != nil {
				return nil, err
			}
		case stPresentDir:
			if err := os.Mkdir(dest, 0o755); err != nil {
				return nil, err
			}
			spec.ErrorAllowed = true
		}
		b.exp.Targets = []target{{Path: dest, Kind: "symlink", NewLink: spec.Src}}
		b.exp.Temps = []tempRule{{Dir: dst, Pattern: tempPattern(dest), Kind: "symlinkdir"}}

	case shared.OpFstreePut:
		base := filepath.Join(sb, "db")
		if err := os.MkdirAll(base, 0o755); err != nil {
			return nil, err
		}
		if err := writeFileMode(filepath.Join(base, "other-record"), shared.RecordBytes("other-record", []byte("unrelated")), 0o644); err != nil {
			return nil, err
		}
		key := "rec"
		if c.Nested {
			key = "lvl1/lvl2/rec"
			b.exp.MayCreateDirs = []string{filepath.Join(base, "lvl1"), filepath.Join(base, "lvl1", "lvl2")}
		}
		dest := filepath.Join(base, filepath.FromSlash(key))
		spec.Base, spec.Key, spec.Dest, spec.Src = base, key, dest, src
		if err := writeFileMode(src, newData, 0o640); err != nil {
			return nil, err
		}
		if err := placeOld(dest, shared.RecordBytes(key, oldData)); err != nil {
			return nil, err
		}
		b.exp.Targets = []target{{Path: dest, Kind: "file", NewData: shared.RecordBytes(key, newData), SingleFile: true}}
		renameioTemps(dest)

	case shared.OpGetFile, shared.OpDownloadAll:
		storage := filepath.Join(sb, "updates")
		if err := os.MkdirAll(storage, 0o755); err != nil {
			return nil, err
		}
		token := fmt.Sprintf("/t%06d", n)
		spec.Storage, spec.URL = storage, server().URL+token
		spec.Identifier, spec.Version = "x/data.bin", "1.0.0"
		rel := "x/data_v1-0-0.bin"
		dest := filepath.Join(storage, filepath.FromSlash(rel))
		spec.Dest = dest
		truncated := 0
		if c.FlakyServer {
			truncated = 1
		}
		serve(token+"/"+rel, newData, truncated, c.FlakyCloseDelimited)
		if c.FirstStatus != 0 {
			serveOddFirst(token+"/"+rel, newData, c.FirstStatus)
		}
		if c.CorruptFirst && len(newData) > 0 {
			serveCorruptFirst(token+"/"+rel, newData)
		}
		cleanups = append(cleanups, func() { srvFiles.Delete(token + "/" + rel); srvFiles.Delete(token + "/" + rel + ".sig") })
		b.exp.MayCreateDirs = []string{filepath.Join(storage, "x")}
		fileTarget := target{Path: dest, Kind: "file", NewData: newData, SingleFile: true}
		if c.SigOnly {
			// the resource itself is there already, only its signature is missing
			if err := writeFileMode(dest, newData, 0o755); err != nil {
				return nil, err
			}
			spec.Available = true
			fileTarget.Untouched = true
		} else if err := placeOld(dest, oldData); err != nil {
			return nil, err
		}
		b.exp.Targets = []target{fileTarget}
		if c.Verify {
			if err := signer(); err != nil {
				return nil, err
			}
			spec.Recipient = signRecipient
			sig, err := signData(newData, map[string]string{"id": spec.Identifier, "version": spec.Version})
			if err != nil {
				return nil, err
			}
			serve(token+"/"+rel+".sig", sig, 0)
			if !c.SigOnly {
				oldSig, err := signData(oldData, map[string]string{"id": spec.Identifier, "version": spec.Version})
				if err != nil {
					return nil, err
				}
				if err := placeOld(dest+".sig", oldSig); err != nil {
					return nil, err
				}
			}
			b.exp.Targets = append(b.exp.Targets, target{Path: dest + ".sig", Kind: "file", NewData: sig, SingleFile: true})
		}
		if c.StaleTmp {
			if err := writeFileMode(filepath.Join(storage, "tmp", ".stale123"), []byte("left over"), 0o600); err != nil {
				return nil, err
			}
		}
		b.exp.Temps = []tempRule{{Dir: filepath.Join(storage, "tmp")}}

	case shared.OpUpdateIndexes:
		storage := filepath.Join(sb, "updates")
		if err := os.MkdirAll(storage, 0o755); err != nil {
			return nil, err
		}
		token := fmt.Sprintf("/t%06d", n)
		spec.Storage, spec.URL = storage, server().URL+token
		dest := filepath.Join(storage, "stable.json")
		spec.Dest = dest
		index := func(seed uint64, size int) []byte {
			return []byte(fmt.Sprintf(`{"Channel":"stable","Published":"2021-01-01T00:00:00Z","Releases":{"x/data.bin":"1.0.%d","x/pad.bin":"0.0.0-%s"}}`, seed%1000, strings.Repeat("p", size)))
		}
		newIndex := index(c.NewSeed, c.NewSize)
		serve(token+"/stable.json", newIndex, 0)
		cleanups = append(cleanups, func() { srvFiles.Delete(token + "/stable.json") })
		if err := placeOld(dest, index(c.OldSeed, c.OldSize)); err != nil {
			return nil, err
		}
		b.exp.Targets = []target{{Path: dest, Kind: "file", NewData: newIndex, SingleFile: true}}
		b.exp.Temps = []tempRule{{Dir: filepath.Join(storage, "tmp")}}

	case shared.OpUnpackArchive:
		storage := filepath.Join(sb, "updates")
		spec.Storage = storage
		spec.Identifier, spec.Version = "x/pkg.zip", "1.0.0"
		archive := filepath.Join(storage, "x", "pkg_v1-0-0.zip")
		dest := filepath.Join(storage, "x", "pkg_v1-0-0")
		spec.Dest = dest
		tree := map[string][]byte{
			"index.html":      newData,
			"assets":          nil,
			"assets/app.js":   shared.MakeContent(c.NewSeed+1, c.NewSize/2+150),
			"assets/empty":    {},
			"assets/deep":     nil,
			"assets/deep/x.b": shared.MakeContent(c.NewSeed+2, 300),
		}
		order := []string{"index.html", "assets", "assets/app.js", "assets/empty", "assets/deep", "assets/deep/x.b"}
		tg := target{Path: dest, Kind: "dir", NewTree: tree}
		if c.BadArchive {
			tree["missing-dir/file.bin"] = []byte("cannot be extracted")
			order = append(order, "missing-dir/file.bin")
			tg.Untouched = true
			spec.ExpectError = true
		}
		archiveBytes := zipArchive(tree, order)
		if c.Damage != "" {
			archiveBytes = zipArchiveDamaged(tree, order, c.Damage)
			tg.Untouched = true
			spec.ExpectError = true
		}
		if err := writeFileMode(archive, archiveBytes, 0o644); err != nil {
			return nil, err
		}
		switch c.State {
		case stPresent:
			// an earlier unpacking: "it is assumed that the contents have already been correctly unpacked"
			if err := writeFileMode(filepath.Join(dest, "index.html"), oldData, 0o644); err != nil {
				return nil, err
			}
			tg.Untouched = true
		case stBlocked:
			if err := writeFileMode(dest, oldData, 0o644); err != nil {
				return nil, err
			}
			tg.Untouched = true
			spec.ExpectError = true
		}
		if c.StaleTmp {
			if err := writeFileMode(filepath.Join(storage, "tmp", "pkg_v1-0-0", "stale.txt"), []byte("left over"), 0o600); err != nil {
				return nil, err
			}
		}
		b.exp.Targets = []target{tg}
		b.exp.Temps = []tempRule{{Dir: filepath.Join(storage, "tmp")}}

	case shared.OpFileUnpack:
		storage := filepath.Join(sb, "updates")
		spec.Storage = storage
		spec.Identifier, spec.Version, spec.Suffix = "x/data.txt.gz", "1.0.0", ".gz"
		packed := filepath.Join(storage, "x", "data_v1-0-0.txt.gz")
		dest := filepath.Join(storage, "x", "data_v1-0-0.txt")
		spec.Dest = dest
		// every other packed file consists of two or three gzip members
		members := 1
		if c.NewSeed%2 == 0 {
			members = 2 + int(c.NewSeed/2%2)
			stats.Class("unpack_of_a_gzip_file_with_several_members")
		}
		if err := writeFileMode(packed, gzipMembers(newData, members), 0o644); err != nil {
			return nil, err
		}
		tg := target{Path: dest, Kind: "file", NewData: newData, SingleFile: true}
		if c.State == stPresent {
			if err := writeFileMode(dest, oldData, 0o644); err != nil {
				return nil, err
			}
			tg.Untouched = true
		}
		b.exp.Targets = []target{tg}
		b.exp.Temps = []tempRule{{Dir: filepath.Join(storage, "tmp")}}

	default:
		return nil, fmt.Errorf("harness: unknown op %q", c.Op)
	}
	return b, nil
}

// ---------------------------------------------------------------- one run

type runReport struct {
	Trace    *traceResult
	Outcomes map[string]outcome
	Sandbox  string
}

type failer interface {
	Fatalf(format string, args ...any)
}

// violation is a failed oracle (as opposed to a harness problem).
type violation struct{ msg string }

func (v *violation) Error() string { return v.msg }

// runOne builds the fixture, runs the writer killed before call K (0 = not at
// all) and applies the oracle. A *violation error is a verdict; any other error
// is a harness problem.
func runOne(c caseDef, k int, keepLog bool) (*runReport, error) {
	b, err := build(c)
	if err != nil {
		return nil, fmt.Errorf("harness: building fixture: %w", err)
	}
	defer b.cleanup()
	pre, err := takeSnapshot(b.dirs.Sandbox)
	if err != nil {
		return nil, fmt.Errorf("harness: snapshot: %w", err)
	}
	if j := os.Getenv("VERIF_JOURNAL"); j != "" {
		_ = os.WriteFile(j, []byte(fmt.Sprintf(`{"case":%s,"k":%d}`, c.id(), k)), 0o644)
	}
	tr, err := runTraced(b.dirs, b.spec, k)
	if err != nil {
		return nil, fmt.Errorf("harness: %w", err)
	}
	post, err := takeSnapshot(b.dirs.Sandbox)
	if err != nil {
		return nil, fmt.Errorf("harness: snapshot: %w", err)
	}
	rep := &runReport{Trace: tr, Sandbox: b.dirs.Sandbox}
	where := fmt.Sprintf("writer killed before its counted call %d", k)
	if !tr.Killed {
		where = "writer ran to completion (" + tr.End + ")"
	}
	fail := func(format string, args ...any) error {
		return &violation{msg: fmt.Sprintf("C17 violated: %s\n  case: %s\n  %s\n  counted system calls (<sb> = sandbox):\n%s  writer output: %s",
			fmt.Sprintf(format, args...), c.id(), where, tr.render(b.dirs.Sandbox), strings.TrimSpace(tr.Stderr))}
	}

	failedAsAllowed := false
	if !tr.Killed && tr.End == "exit=4" && b.spec.ErrorAllowed {
		// the operation reported a failure: it must have left every destination alone
		failedAsAllowed = true
		for i := range b.exp.Targets {
			b.exp.Targets[i].Untouched = true
		}
		stats.Class("operation_failed_as_allowed")
	}
	outs, err := judge(b.exp, pre, post)
	if err != nil {
		return rep, fail("%s", strings.ReplaceAll(err.Error(), b.dirs.Sandbox, "<sb>"))
	}
	rep.Outcomes = outs

	if !tr.Killed {
		if tr.End != "exit=0" && !failedAsAllowed {
			return rep, fail("the operation did not behave as the case expects (%s)", tr.End)
		}
		for _, tg := range b.exp.Targets {
			if !tg.Untouched && outs[tg.Path] != outNew && outs[tg.Path] != outBoth {
				return rep, fail("after a complete successful operation the destination %s shows %q, not the new content", strings.ReplaceAll(tg.Path, b.dirs.Sandbox, "<sb>"), outs[tg.Path])
			}
			if err := checkOrder(tg, tr.Calls); err != nil {
				return rep, fail("%s", strings.ReplaceAll(err.Error(), b.dirs.Sandbox, "<sb>"))
			}
		}
	}
	return rep, nil
}

func recordRun(c caseDef, k int, rep *runReport) {
	classes := []string{"writer:" + c.Writer, "state:" + c.State, "tmp:" + c.Tmp, "sizes:" + sizeClass(c.OldSize) + "->" + sizeClass(c.NewSize)}
	if k == 0 {
		classes = append(classes, "run:complete")
	} else if rep.Trace.Killed {
		classes = append(classes, "run:killed", "killed_before:"+rep.Trace.Calls[len(rep.Trace.Calls)-1].Name)
	} else {
		classes = append(classes, "run:finished_before_K")
	}
	for _, o := range rep.Outcomes {
		classes = append(classes, "outcome:"+string(o))
	}
	stats.Case(fmt.Sprintf("%s|k=%d", c.id(), k), k > 0 && rep.Trace.Killed, classes...)
	if k > 0 && rep.Trace.Killed && stats.WantSample("crash:"+c.Writer) {
		last := rep.Trace.Calls[len(rep.Trace.Calls)-1]
		stats.Sample("crash:"+c.Writer, map[string]any{
			"case": c, "killed_before_call": k, "call": strings.ReplaceAll(last.String(), rep.Sandbox, "<sb>"), "outcomes": outcomeList(rep.Outcomes, rep.Sandbox),
		})
	}
}

func outcomeList(m map[string]outcome, sb string) map[string]string {
	out := map[string]string{}
	for p, o := range m {
		out[strings.ReplaceAll(p, sb, "<sb>")] = string(o)
	}
	return out
}
