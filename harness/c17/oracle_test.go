package c17

// File-system snapshots and the C17 oracle.

import (
	"bytes"
	"crypto/sha256"
	"fmt"
	"io/fs"
	"os"
	"path/filepath"
	"regexp"
	"sort"
	"strings"
)

// entry is what the oracle sees of one path (no following of symlinks).
type entry struct {
	Mode fs.FileMode // type bits + permission bits
	Size int64
	Sum  [32]byte // regular files
	Link string   // symlinks
}

func (e entry) kind() string {
	switch {
	case e.Mode.IsDir():
		return "dir"
	case e.Mode&fs.ModeSymlink != 0:
		return "symlink"
	case e.Mode.IsRegular():
		return "file"
	}
	return "other"
}

func (e entry) String() string {
	switch e.kind() {
	case "dir":
		return fmt.Sprintf("dir %04o", e.Mode.Perm())
	case "symlink":
		return fmt.Sprintf("symlink -> %q", e.Link)
	case "file":
		return fmt.Sprintf("file %04o %d bytes sha256=%x", e.Mode.Perm(), e.Size, e.Sum[:6])
	}
	return "other " + e.Mode.String()
}

// snapshot maps absolute paths below (and excluding) root to entries.
type snapshot map[string]entry

func lstatEntry(p string) (entry, bool, error) {
	fi, err := os.Lstat(p)
	if err != nil {
		if os.IsNotExist(err) {
			return entry{}, false, nil
		}
		return entry{}, false, err
	}
	e := entry{Mode: fi.Mode() & (fs.ModeType | fs.ModePerm)}
	switch {
	case fi.Mode().IsRegular():
		b, err := os.ReadFile(p)
		if err != nil {
			return entry{}, false, err
		}
		e.Size = int64(len(b))
		e.Sum = sha256.Sum256(b)
	case fi.Mode()&fs.ModeSymlink != 0:
		e.Link, err = os.Readlink(p)
		if err != nil {
			return entry{}, false, err
		}
	}
	return e, true, nil
}

func takeSnapshot(root string) (snapshot, error) {
	s := snapshot{}
	err := filepath.WalkDir(root, func(p string, d fs.DirEntry, err error) error {
		if err != nil {
			return err
		}
		if p == root {
			return nil
		}
		e, ok, err := lstatEntry(p)
		if err != nil {
			return err
		}
		if ok {
			s[p] = e
		}
		return nil
	})
	return s, err
}

func (s snapshot) sortedPaths() []string {
	out := make([]string, 0, len(s))
	for p := range s {
		out = append(out, p)
	}
	sort.Strings(out)
	return out
}

func isUnder(p, dir string) bool {
	return p == dir || strings.HasPrefix(p, dir+string(filepath.Separator))
}

// subtree returns the entries at and below dir, keyed relative to dir ("." = dir itself).
func (s snapshot) subtree(dir string) map[string]entry {
	out := map[string]entry{}
	for p, e := range s {
		if isUnder(p, dir) {
			rel, _ := filepath.Rel(dir, p)
			out[rel] = e
		}
	}
	return out
}

// ---------------------------------------------------------------- expectations

// target is one destination path of the operation with its complete new state.
type target struct {
	Path string
	Kind string // "file", "symlink", "dir"

	NewData []byte            // file
	NewLink string            // symlink
	NewTree map[string][]byte // dir: relative path -> content, nil content = directory

	// SingleFile: the fsync-before-rename clause applies.
	SingleFile bool
	// Untouched: the operation must leave this destination as it is (already
	// unpacked, failing operation): the complete previous state is the only
	// acceptable one and no call may touch it.
	Untouched bool
}

// tempRule describes residue a crashed operation may leave behind.
type tempRule struct {
	Dir     string         // location
	Pattern *regexp.Regexp // on the base name; nil = anything below Dir (and Dir itself may come and go)
	// Kind "file": a regular file of any content. Kind "symlinkdir": a directory
	// holding at most one symlink named tmp.symlink.
	Kind string
}

type expectation struct {
	Targets []target
	Temps   []tempRule
	// MayCreateDirs lists directories the operation may create on its way to
	// the destination (they are not files, not content): ancestors of a
	// destination that did not exist before.
	MayCreateDirs []string
}

func tempPattern(dest string) *regexp.Regexp {
	return regexp.MustCompile(`^\.` + regexp.QuoteMeta(filepath.Base(dest)) + `[0-9]+$`)
}

// ---------------------------------------------------------------- judging

type outcome string

const (
	outAbsent outcome = "absent_as_before"
	outOld    outcome = "old"
	outNew    outcome = "new"
	outBoth   outcome = "old_identical_to_new"
)

// isNewState reports whether the destination shows the complete new content.
func isNewState(tg target, post snapshot) bool {
	after, ok := post[tg.Path]
	if !ok {
		return false
	}
	switch tg.Kind {
	case "file":
		return after.kind() == "file" && after.Size == int64(len(tg.NewData)) && after.Sum == sha256.Sum256(tg.NewData)
	case "symlink":
		return after.kind() == "symlink" && after.Link == tg.NewLink
	case "dir":
		if after.kind() != "dir" {
			return false
		}
		got := post.subtree(tg.Path)
		delete(got, ".")
		if len(got) != len(tg.NewTree) {
			return false
		}
		for rel, content := range tg.NewTree {
			e, ok := got[rel]
			if !ok {
				return false
			}
			if content == nil {
				if e.kind() != "dir" {
					return false
				}
				continue
			}
			if e.kind() != "file" || e.Size != int64(len(content)) || e.Sum != sha256.Sum256(content) {
				return false
			}
		}
		return true
	}
	return false
}

func describeTree(t map[string]entry) string {
	keys := make([]string, 0, len(t))
	for k := range t {
		keys = append(keys, k)
	}
	sort.Strings(keys)
	var b strings.Builder
	for _, k := range keys {
		fmt.Fprintf(&b, "        %s: %s\n", k, t[k])
	}
	return b.String()
}

// judgeTarget decides whether the destination shows the complete previous state
// or the complete new content.
func judgeTarget(tg target, pre, post snapshot) (outcome, error) {
	before, hadBefore := pre[tg.Path]
	after, hasAfter := post[tg.Path]

	sameAsBefore := func() bool {
		if hadBefore != hasAfter {
			return false
		}
		if !hadBefore {
			return true
		}
		if before != after {
			return false
		}
		if before.Mode.IsDir() {
			a, b := pre.subtree(tg.Path), post.subtree(tg.Path)
			if len(a) != len(b) {
				return false
			}
			for k, v := range a {
				if w, ok := b[k]; !ok || w != v {
					return false
				}
			}
		}
		return true
	}
	if sameAsBefore() {
		if !hadBefore {
			return outAbsent, nil
		}
		// previous state and new content may be indistinguishable (e.g. empty -> empty with the same mode)
		if !tg.Untouched && isNewState(tg, post) {
			return outBoth, nil
		}
		return outOld, nil
	}
	if tg.Untouched {
		return "", fmt.Errorf("destination %s must stay as it was (%v) but is now %v", tg.Path, showEntry(before, hadBefore), showEntry(after, hasAfter))
	}
	if !hasAfter {
		return "", fmt.Errorf("destination %s existed before the operation (%s) and is gone", tg.Path, before)
	}
	switch tg.Kind {
	case "file":
		if after.kind() != "file" {
			return "", fmt.Errorf("destination %s is a %s, neither the previous state (%s) nor the new file", tg.Path, after, showEntry(before, hadBefore))
		}
		if after.Size == int64(len(tg.NewData)) && after.Sum == sha256.Sum256(tg.NewData) {
			return outNew, nil
		}
		got, _ := os.ReadFile(tg.Path)
		return "", fmt.Errorf("destination %s holds a fragment: %d bytes (sha256 %x); previous state: %s; complete new content: %d bytes (sha256 %x); common prefix with new content: %d bytes",
			tg.Path, after.Size, after.Sum[:6], showEntry(before, hadBefore), len(tg.NewData), sha256sum(tg.NewData)[:6], commonPrefix(got, tg.NewData))
	case "symlink":
		if after.kind() == "symlink" && after.Link == tg.NewLink {
			return outNew, nil
		}
		return "", fmt.Errorf("destination %s is %s; previous state: %s; new state: symlink -> %q", tg.Path, after, showEntry(before, hadBefore), tg.NewLink)
	case "dir":
		if after.kind() != "dir" {
			return "", fmt.Errorf("destination %s is %s, expected a directory or the previous state (%s)", tg.Path, after, showEntry(before, hadBefore))
		}
		got := post.subtree(tg.Path)
		delete(got, ".")
		var problems []string
		for rel, content := range tg.NewTree {
			e, ok := got[rel]
			switch {
			case !ok:
				problems = append(problems, "missing "+rel)
			case content == nil && e.kind() != "dir":
				problems = append(problems, rel+" is not a directory")
			case content != nil && (e.kind() != "file" || e.Size != int64(len(content)) || e.Sum != sha256.Sum256(content)):
				problems = append(problems, fmt.Sprintf("%s is %s, want %d bytes sha256=%x", rel, e, len(content), sha256sum(content)[:6]))
			}
		}
		for rel := range got {
			if _, ok := tg.NewTree[rel]; !ok {
				problems = append(problems, "unexpected "+rel)
			}
		}
		if len(problems) == 0 {
			return outNew, nil
		}
		sort.Strings(problems)
		return "", fmt.Errorf("destination directory %s is neither absent/as before nor complete: %s\n      it holds:\n%s", tg.Path, strings.Join(problems, "; "), describeTree(got))
	}
	return "", fmt.Errorf("harness: unknown target kind %q", tg.Kind)
}

func sha256sum(b []byte) []byte {
	s := sha256.Sum256(b)
	return s[:]
}

func commonPrefix(a, b []byte) int {
	n := 0
	for n < len(a) && n < len(b) && a[n] == b[n] {
		n++
	}
	return n
}

func showEntry(e entry, ok bool) string {
	if !ok {
		return "absent"
	}
	return e.String()
}

// judge applies the whole oracle to the state after a (possibly killed) run.
func judge(exp *expectation, pre, post snapshot) (map[string]outcome, error) {
	outs := map[string]outcome{}
	for _, tg := range exp.Targets {
		o, err := judgeTarget(tg, pre, post)
		if err != nil {
			return nil, err
		}
		outs[tg.Path] = o
	}

	inTarget := func(p string) bool {
		for _, tg := range exp.Targets {
			if isUnder(p, tg.Path) {
				return true
			}
		}
		return false
	}
	// residue(p): p is acceptable residue under one of the temp rules
	residue := func(p string, s snapshot) bool {
		for _, r := range exp.Temps {
			if r.Pattern == nil {
				if isUnder(p, r.Dir) {
					return true
				}
				continue
			}
			switch r.Kind {
			case "file":
				if filepath.Dir(p) == r.Dir && r.Pattern.MatchString(filepath.Base(p)) && s[p].kind() == "file" {
					return true
				}
			case "symlinkdir":
				if filepath.Dir(p) == r.Dir && r.Pattern.MatchString(filepath.Base(p)) && s[p].kind() == "dir" {
					return true
				}
				if parent := filepath.Dir(p); filepath.Dir(parent) == r.Dir && r.Pattern.MatchString(filepath.Base(parent)) &&
					filepath.Base(p) == "tmp.symlink" && s[p].kind() == "symlink" {
					return true
				}
			}
		}
		return false
	}
	mayCreate := func(p string) bool {
		for _, d := range exp.MayCreateDirs {
			if d == p {
				return true
			}
		}
		return false
	}

	var problems []string
	for _, p := range post.sortedPaths() {
		if inTarget(p) {
			continue
		}
		after := post[p]
		before, had := pre[p]
		switch {
		case had && before == after:
		case residue(p, post):
		case !had && mayCreate(p) && after.kind() == "dir":
		case !had:
			problems = append(problems, fmt.Sprintf("new path %s (%s) is not a temporary file in the temporary location", p, after))
		default:
			problems = append(problems, fmt.Sprintf("%s changed: was %s, is %s", p, before, after))
		}
	}
	for _, p := range pre.sortedPaths() {
		if inTarget(p) {
			continue
		}
		if _, ok := post[p]; !ok && !residue(p, pre) {
			problems = append(problems, fmt.Sprintf("%s (%s) disappeared", p, pre[p]))
		}
	}
	if len(problems) > 0 {
		return nil, fmt.Errorf("besides the destination the sandbox changed: %s", strings.Join(problems, "; "))
	}
	return outs, nil
}

// ---------------------------------------------------------------- system-call order (complete runs)

var contentCalls = map[string]bool{
	"write": true, "pwrite64": true, "writev": true, "pwritev": true, "pwritev2": true,
	"ftruncate": true, "truncate": true, "fallocate": true, "copy_file_range": true, "sendfile": true, "splice": true,
}

var openCalls = map[string]bool{"open": true, "openat": true, "openat2": true, "creat": true}
var renameCalls = map[string]bool{"rename": true, "renameat": true, "renameat2": true}
var syncCalls = map[string]bool{"fsync": true, "fdatasync": true}

// checkOrder verifies, on the log of a complete successful run, the clause "for
// single files the new content is flushed to stable storage before it is
// renamed into place" and that nothing touches the destination before that
// rename (nor rewrites it afterwards).
func checkOrder(tg target, calls []call) error {
	touches := func(c call) bool { return c.P1 == tg.Path || c.P2 == tg.Path }
	if tg.Untouched {
		for _, c := range calls {
			if c.HasRet && c.Ret < 0 {
				continue // failed without changing anything (e.g. the clean-up unlinking a path that is not there)
			}
			if touches(c) || isUnder(c.P1, tg.Path) || (c.P2 != "" && isUnder(c.P2, tg.Path)) {
				return fmt.Errorf("the destination %s was to be left alone, but: %s", tg.Path, c)
			}
		}
		return nil
	}
	ren := -1
	for i, c := range calls {
		if renameCalls[c.Name] && c.P2 == tg.Path && c.HasRet && c.Ret == 0 {
			if ren >= 0 {
				return fmt.Errorf("destination %s is renamed into place twice (%s and %s)", tg.Path, calls[ren], c)
			}
			ren = i
		}
	}
	if tg.Kind == "symlink" {
		// a symlink is published either by symlink(2) on the absent name or by a rename
		for i, c := range calls {
			if (c.Name == "symlink" || c.Name == "symlinkat") && c.P1 == tg.Path && c.HasRet && c.Ret == 0 {
				if ren >= 0 {
					return fmt.Errorf("destination %s is both created by %s and renamed into place", tg.Path, c)
				}
				ren = i
			}
		}
	}
	if ren < 0 {
		return fmt.Errorf("no successful rename onto the destination %s in a successful run: the content did not arrive through a temporary file", tg.Path)
	}
	tmp := calls[ren].P1
	for _, c := range calls[:ren] {
		if !touches(c) {
			continue
		}
		// an attempt that failed without changing anything (symlink on an existing name: EEXIST) is harmless
		if c.HasRet && c.Ret < 0 {
			continue
		}
		return fmt.Errorf("destination %s is touched before it is renamed into place: %s (rename is %s)", tg.Path, c, calls[ren])
	}
	for _, c := range calls[ren+1:] {
		if !touches(c) {
			continue
		}
		if contentCalls[c.Name] || renameCalls[c.Name] || strings.HasPrefix(c.Name, "unlink") ||
			(openCalls[c.Name] && c.HasRet && c.Ret >= 0) {
			return fmt.Errorf("destination %s is modified after it was renamed into place: %s", tg.Path, c)
		}
	}
	if !tg.SingleFile || tg.Kind != "file" {
		return nil
	}
	lastContent, lastSync := -1, -1
	for i, c := range calls[:ren] {
		if c.P1 != tmp {
			continue
		}
		if contentCalls[c.Name] {
			lastContent = i
		}
		if syncCalls[c.Name] && c.HasRet && c.Ret == 0 {
			lastSync = i
		}
	}
	if lastSync < 0 {
		return fmt.Errorf("no fsync of the temporary file %s before %s: the new content is not flushed before it is renamed into place", tmp, calls[ren])
	}
	if lastContent > lastSync {
		return fmt.Errorf("temporary file %s is written (%s) after its last fsync (%s) and then renamed: the renamed content is not flushed", tmp, calls[lastContent], calls[lastSync])
	}
	return nil
}

var _ = bytes.Equal
