// Package shared holds what the C17 test process and its child writer
// (cmd/atomicwriter) must agree on: the case description, the self-validating
// content format and the record written through the fstree backend.
package shared

import (
	"bytes"
	"crypto/sha256"
	"encoding/hex"
	"fmt"
	"strconv"

	"github.com/safing/portbase/database/record"
	"github.com/safing/portbase/formats/dsd"
)

// Operations of the writer.
const (
	OpWriteFile     = "renameio.WriteFile"
	OpSymlink       = "renameio.Symlink"
	OpCreateAtomic  = "utils.CreateAtomic"
	OpCopyAtomic    = "utils.CopyFileAtomic"
	OpReplaceAtomic = "utils.ReplaceFileAtomic"
	OpFstreePut     = "fstree.Put"
	OpGetFile       = "updater.GetFile"
	OpDownloadAll   = "updater.DownloadUpdates"
	OpUnpackArchive = "updater.UnpackArchive"
	OpFileUnpack    = "updater.File.Unpack"
	// OpUpdateIndexes is outside the statement's list (observation only).
	OpUpdateIndexes = "updater.UpdateIndexes"
)

// Spec describes the ONE write operation a writer process performs.
type Spec struct {
	Op string `json:"op"`

	// Dest is the destination path (informational for the updater operations,
	// where the library derives it).
	Dest string `json:"dest"`

	// Src is a file holding the new content (read before the operation starts;
	// it lives outside the sandbox) - or the path handed to the Copy/Replace
	// helpers. For Symlink it is the link target string.
	Src string `json:"src,omitempty"`

	// Perm is the mode for renameio.WriteFile, or AtomicFileOptions.Mode (0 = unset).
	Perm uint32 `json:"perm,omitempty"`

	// TempDir is AtomicFileOptions.TempDir ("" = let renameio pick).
	TempDir string `json:"temp_dir,omitempty"`

	// NilOpts passes a nil *AtomicFileOptions.
	NilOpts bool `json:"nil_opts,omitempty"`

	// Chunk > 0 feeds CreateAtomic from a reader that returns at most Chunk
	// bytes per Read and offers no WriteTo (several write calls).
	Chunk int `json:"chunk,omitempty"`

	// FailAfter >= 0 makes that reader fail after FailAfter bytes (a failed
	// operation). -1 = never.
	FailAfter int `json:"fail_after"`

	// fstree
	Base string `json:"base,omitempty"`
	Key  string `json:"key,omitempty"`

	// updater
	Storage    string `json:"storage,omitempty"`
	URL        string `json:"url,omitempty"`
	Identifier string `json:"identifier,omitempty"`
	Version    string `json:"version,omitempty"`
	Suffix     string `json:"suffix,omitempty"`
	// Recipient (base58 signet) enables signature verification with this
	// trusted key.
	Recipient string `json:"recipient,omitempty"`
	// Available registers the version as locally available.
	Available bool `json:"available,omitempty"`

	// ExpectError: the operation is expected to return an error (exit 0 when it does).
	ExpectError bool `json:"expect_error,omitempty"`
	// ErrorAllowed: the operation may either succeed (exit 0) or return an
	// error (exit 4); the test decides what the destination must look like.
	ErrorAllowed bool `json:"error_allowed,omitempty"`
}

// ---------------------------------------------------------------- content

const magic = "C17DATA1"

// MakeContent returns a self-validating content of exactly size bytes
// (size 0: the empty file, which validates trivially by its length; sizes below
// the header length are rounded up to the header length).
//
// Layout: "C17DATA1 <size> <seed> <sha256 of body, hex>\n" + body, where body
// is a deterministic pseudo-random byte string derived from seed.
func MakeContent(seed uint64, size int) []byte {
	if size == 0 {
		return []byte{}
	}
	if size < HeaderLen {
		size = HeaderLen
	}
	body := prng(seed, size-HeaderLen)
	sum := sha256.Sum256(body)
	h := fmt.Sprintf("%s %010d %020d %s\n", magic, size, seed, hex.EncodeToString(sum[:]))
	if len(h) != HeaderLen {
		panic("c17: header length")
	}
	out := make([]byte, 0, size)
	out = append(out, h...)
	out = append(out, body...)
	return out
}

// HeaderLen is the fixed length of the header line (fixed-width fields).
const HeaderLen = len(magic) + 1 + 10 + 1 + 20 + 1 + 64 + 1

func prng(seed uint64, n int) []byte {
	out := make([]byte, n)
	x := seed*0x9E3779B97F4A7C15 + 0xD1B54A32D192ED03
	for i := 0; i < n; i += 8 {
		x ^= x << 13
		x ^= x >> 7
		x ^= x << 17
		v := x
		for j := 0; j < 8 && i+j < n; j++ {
			out[i+j] = byte(v)
			v >>= 8
		}
	}
	return out
}

// Validate checks that b is a complete content produced by MakeContent and
// returns its seed. The empty byte string is the valid empty content (seed 0).
func Validate(b []byte) (seed uint64, err error) {
	if len(b) == 0 {
		return 0, nil
	}
	nl := bytes.IndexByte(b, '\n')
	if nl < 0 {
		return 0, fmt.Errorf("no header line in %d bytes", len(b))
	}
	f := bytes.Fields(b[:nl])
	if len(f) != 4 || string(f[0]) != magic {
		return 0, fmt.Errorf("malformed header %q", b[:nl])
	}
	size, err := strconv.Atoi(string(f[1]))
	if err != nil {
		return 0, fmt.Errorf("malformed size in header %q", b[:nl])
	}
	seed, err = strconv.ParseUint(string(f[2]), 10, 64)
	if err != nil {
		return 0, fmt.Errorf("malformed seed in header %q", b[:nl])
	}
	if size != len(b) {
		return seed, fmt.Errorf("header announces %d bytes, %d present", size, len(b))
	}
	sum := sha256.Sum256(b[nl+1:])
	if hex.EncodeToString(sum[:]) != string(f[3]) {
		return seed, fmt.Errorf("body checksum mismatch (%d bytes)", len(b))
	}
	return seed, nil
}

// ---------------------------------------------------------------- fstree record

// FstreeDBName is the database name used for records put through fstree.
const FstreeDBName = "c17db"

// Record builds the (deterministic) record stored under key with payload data.
func Record(key string, data []byte) record.Record {
	meta := &record.Meta{Created: 1700000000, Modified: 1700000001}
	w, err := record.NewWrapper(FstreeDBName+":"+key, meta, dsd.RAW, data)
	if err != nil {
		panic(err)
	}
	return w
}

// RecordBytes is the exact file content fstree must publish for Record(key, data).
func RecordBytes(key string, data []byte) []byte {
	r := Record(key, data)
	b, err := r.MarshalRecord(r)
	if err != nil {
		panic(err)
	}
	return b
}

// MakeContentLen is len(MakeContent(seed, size)).
func MakeContentLen(size int) int {
	if size == 0 {
		return 0
	}
	if size < HeaderLen {
		return HeaderLen
	}
	return size
}
