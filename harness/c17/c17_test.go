// Package c17 decides C17: files written through portbase's atomic-replace
// primitives are published atomically - the destination shows the complete
// previous state or the complete new content at every crash point (process
// killed immediately before each file-system-mutating system call), for
// concurrent readers, with fsync before rename for single files and with
// nothing but stray temporary files left behind.
//
// Crash points are produced from outside: the child writer
// (cmd/atomicwriter) runs under tools/sysstep, a ptrace stepper that counts the
// mutating system calls touching the sandbox and kills the writer before the
// K-th one.
package c17

import (
	"fmt"
	"os"
	"regexp"
	"runtime"
	"sort"
	"strconv"
	"strings"
	"sync"
	"testing"

	"pgregory.net/rapid"

	"verifharness/c17/shared"
	"verifharness/internal/stats"
)

func TestMain(m *testing.M) {
	if err := setupScratch(); err != nil {
		fmt.Fprintln(os.Stderr, "c17: cannot create scratch directories:", err)
		os.Exit(2)
	}
	code := m.Run()
	cleanupScratch()
	stats.Flush(code)
	os.Exit(code)
}

func workers() int {
	if v, err := strconv.Atoi(os.Getenv("VERIF_C17_WORKERS")); err == nil && v > 0 {
		return v
	}
	n := runtime.NumCPU()
	if n > 16 {
		n = 16
	}
	return n
}

// exclusion flags of open findings (none at the moment, see known-findings.part)

// ---------------------------------------------------------------- the exhaustive table

const (
	smallOld = 700
	smallNew = 1300
)

func base(writer, op, state, tmp string) caseDef {
	return caseDef{Writer: writer, Op: op, State: state, Tmp: tmp, OldSize: smallOld, NewSize: smallNew, OldSeed: 11, NewSeed: 22, FailAfter: -1, OldMode: 0o600}
}

// exhaustiveTable is the full (writer x destination state x temp location)
// table with small contents, plus the empty-content pairs.
func exhaustiveTable() []caseDef {
	var out []caseDef
	add := func(c caseDef) { out = append(out, c) }
	states := []string{stAbsent, stPresent, stPresentMode}

	for _, st := range states {
		for _, tmp := range []string{tmpSandbox, tmpForeign} {
			c := base("renameio.WriteFile", shared.OpWriteFile, st, tmp)
			c.Perm = 0o644
			add(c)
		}
	}
	for _, st := range []string{stAbsent, stPresent, stPresentFile, stPresentDir} {
		add(base("renameio.Symlink", shared.OpSymlink, st, tmpSandbox))
	}
	for _, st := range states {
		for _, tmp := range []string{tmpSandbox, tmpForeign, tmpExplicit, tmpExplicitForeign, tmpExplicitMissing} {
			add(base("utils.CreateAtomic", shared.OpCreateAtomic, st, tmp))
		}
		c := base("utils.CreateAtomic", shared.OpCreateAtomic, st, tmpSandbox)
		c.Perm = 0o640
		c.Chunk = 400
		add(c)
		c = base("utils.CreateAtomic", shared.OpCreateAtomic, st, tmpSandbox)
		c.NilOpts = true
		add(c)
	}
	for _, st := range []string{stAbsent, stPresent} {
		for _, tmp := range []string{tmpSandbox, tmpExplicit} {
			c := base("utils.CreateAtomic(failing reader)", shared.OpCreateAtomic, st, tmp)
			c.Chunk = 400
			c.FailAfter = 900
			add(c)
		}
	}
	for _, st := range states {
		for _, tmp := range []string{tmpSandbox, tmpExplicit} {
			add(base("utils.CopyFileAtomic", shared.OpCopyAtomic, st, tmp))
		}
		for _, tmp := range []string{tmpSandbox, tmpForeign} {
			add(base("utils.ReplaceFileAtomic", shared.OpReplaceAtomic, st, tmp))
		}
		c := base("utils.CopyFileAtomic", shared.OpCopyAtomic, st, tmpForeign)
		c.Perm = 0o600
		add(c)
		if st != stPresentMode {
			add(base("utils.CopyFileAtomic", shared.OpCopyAtomic, st, tmpExplicitForeign))
			add(base("utils.ReplaceFileAtomic", shared.OpReplaceAtomic, st, tmpExplicitForeign))
			add(base("utils.CopyFileAtomic", shared.OpCopyAtomic, st, tmpExplicitMissing))
			add(base("utils.ReplaceFileAtomic", shared.OpReplaceAtomic, st, tmpExplicitMissing))
		}
	}
	for _, st := range states {
		for _, tmp := range []string{tmpSandbox, tmpForeign} {
			add(base("fstree.Put", shared.OpFstreePut, st, tmp))
		}
	}
	for _, st := range []string{stAbsent, stPresent} {
		for _, tmp := range []string{tmpSandbox, tmpForeign} {
			c := base("fstree.Put(nested key)", shared.OpFstreePut, st, tmp)
			c.Nested = true
			add(c)
		}
	}
	for _, st := range states {
		for _, verify := range []bool{false, true} {
			c := base("updater.GetFile", shared.OpGetFile, st, tmpSandbox)
			c.OldMode = 0o400
			if verify {
				c.Writer = "updater.GetFile(signed)"
				c.Verify = true
			}
			add(c)
		}
	}
	{
		c := base("updater.GetFile", shared.OpGetFile, stAbsent, tmpSandbox)
		c.StaleTmp = true
		add(c)
		// a failed first attempt (truncated body) followed by the retry
		for _, st := range []string{stAbsent, stPresent} {
			c = base("updater.GetFile(first attempt fails)", shared.OpGetFile, st, tmpSandbox)
			c.FlakyServer = true
			add(c)
			c = base("updater.GetFile(first attempt cut, no content length)", shared.OpGetFile, st, tmpSandbox)
			c.FlakyServer = true
			c.FlakyCloseDelimited = true
			add(c)
			c = base("updater.GetFile(signed, first attempt delivers wrong bytes)", shared.OpGetFile, st, tmpSandbox)
			c.Verify, c.CorruptFirst = true, true
			add(c)
			for _, status := range []int{206, 202, 204} {
				c = base("updater.GetFile(first attempt answered with another 2xx status)", shared.OpGetFile, st, tmpSandbox)
				c.FirstStatus = status
				add(c)
			}
		}
	}
	for _, st := range []string{stAbsent, stPresent} {
		for _, verify := range []bool{false, true} {
			c := base("updater.DownloadUpdates", shared.OpDownloadAll, st, tmpSandbox)
			if verify {
				c.Writer = "updater.DownloadUpdates(signed)"
				c.Verify = true
			}
			add(c)
		}
	}
	{
		c := base("updater.DownloadUpdates(missing signature)", shared.OpDownloadAll, stPresent, tmpSandbox)
		c.Verify, c.SigOnly = true, true
		add(c)
	}
	for _, st := range []string{stAbsent, stPresent, stBlocked} {
		add(base("updater.UnpackArchive", shared.OpUnpackArchive, st, tmpSandbox))
	}
	{
		c := base("updater.UnpackArchive", shared.OpUnpackArchive, stAbsent, tmpSandbox)
		c.StaleTmp = true
		add(c)
		for _, dmg := range []string{"truncated_stream", "overstated_size", "bad_crc", "truncated_stream:first", "overstated_size:first", "bad_crc:first"} {
			d := base("updater.UnpackArchive(entry data ends early)", shared.OpUnpackArchive, stAbsent, tmpSandbox)
			d.Damage = dmg
			add(d)
		}
		c = base("updater.UnpackArchive(bad archive)", shared.OpUnpackArchive, stAbsent, tmpSandbox)
		c.BadArchive = true
		add(c)
	}
	for _, st := range []string{stAbsent, stPresent} {
		add(base("updater.File.Unpack", shared.OpFileUnpack, st, tmpSandbox))
	}

	// empty contents on either side, for every single-file writer that replaces
	var extra []caseDef
	seen := map[string]bool{}
	for _, c := range out {
		if c.State != stPresent || c.Tmp != tmpSandbox || seen[c.Writer] || c.FailAfter >= 0 || c.SigOnly {
			continue
		}
		switch c.Op {
		case shared.OpSymlink, shared.OpUnpackArchive, shared.OpFileUnpack:
			continue
		}
		seen[c.Writer] = true
		e := c
		e.OldSize, e.NewSize = 0, smallNew
		extra = append(extra, e)
		e = c
		e.OldSize, e.NewSize = smallOld, 0
		extra = append(extra, e)
	}
	{
		// publishing an empty file where there was none
		e := base("renameio.WriteFile", shared.OpWriteFile, stAbsent, tmpSandbox)
		e.Perm, e.NewSize = 0o644, 0
		extra = append(extra, e)
		e = base("updater.File.Unpack", shared.OpFileUnpack, stAbsent, tmpSandbox)
		e.NewSize = 0
		extra = append(extra, e)
	}
	return append(out, extra...)
}

// ---------------------------------------------------------------- drivers

type job struct {
	c caseDef
	k int
}

type jobResult struct {
	job
	rep *runReport
	err error
}

func runJobs(jobs []job) []jobResult {
	res := make([]jobResult, len(jobs))
	sem := make(chan struct{}, workers())
	var wg sync.WaitGroup
	for i := range jobs {
		wg.Add(1)
		sem <- struct{}{}
		go func(i int) {
			defer wg.Done()
			defer func() { <-sem }()
			rep, err := runOne(jobs[i].c, jobs[i].k, false)
			res[i] = jobResult{job: jobs[i], rep: rep, err: err}
		}(i)
	}
	wg.Wait()
	return res
}

func reportFailures(t *testing.T, res []jobResult) {
	t.Helper()
	shown := 0
	failed := 0
	for _, r := range res {
		if r.err == nil {
			continue
		}
		failed++
		if shown < 6 {
			shown++
			t.Errorf("K=%d: %v", r.k, r.err)
		}
	}
	if failed > shown {
		t.Errorf("... and %d more failing runs", failed-shown)
	}
}

// TestExhaustiveCrashPoints enumerates, for every case of the table, every
// crash point: the writer is killed before its K-th counted system call for all
// K in [1, N].
func TestExhaustiveCrashPoints(t *testing.T) {
	table := exhaustiveTable()
	table = applyExclusions(table)

	// complete runs: N, system-call order, final state
	var full []job
	for _, c := range table {
		full = append(full, job{c, 0})
	}
	fullRes := runJobs(full)
	reportFailures(t, fullRes)

	perWriter := map[string][]int{}
	var crash []job
	for _, r := range fullRes {
		if r.rep == nil || r.rep.Trace == nil {
			continue
		}
		n := len(r.rep.Trace.Calls)
		perWriter[r.c.Writer] = append(perWriter[r.c.Writer], n)
		if r.err == nil {
			recordRun(r.c, 0, r.rep)
		}
		stats.Class(fmt.Sprintf("counted_calls:%s:%02d", r.c.Writer, n))
		if os.Getenv("VERIF_C17_DUMP") != "" {
			t.Logf("complete run of %s\n%s", r.c.id(), r.rep.Trace.render(r.rep.Sandbox))
		}
		for k := 1; k <= n; k++ {
			crash = append(crash, job{r.c, k})
		}
	}
	crashRes := runJobs(crash)
	reportFailures(t, crashRes)
	for _, r := range crashRes {
		if r.err == nil && r.rep != nil {
			recordRun(r.c, r.k, r.rep)
		}
	}

	writers := make([]string, 0, len(perWriter))
	for w := range perWriter {
		writers = append(writers, w)
	}
	sort.Strings(writers)
	for _, w := range writers {
		sort.Ints(perWriter[w])
		t.Logf("%-45s cases=%d counted calls per case: %v", w, len(perWriter[w]), perWriter[w])
	}
	t.Logf("%d cases, %d crash-point runs", len(table), len(crash))
	if !t.Failed() {
		stats.Exhaustive("every crash point K in [1,N] of every (writer x destination state x temp location) case with small and empty contents")
	}
}

func applyExclusions(in []caseDef) []caseDef {
	return in
}

// ---------------------------------------------------------------- regressions (fixed findings)

// TestRegSignatureFilePublishedAtomically: the updater wrote the downloaded
// signature file (<resource>.sig) with os.WriteFile straight to its final path;
// a crash between the truncating open and the write left an empty signature
// next to the resource (fixed: written through the tmp dir and renamed).
func TestRegSignatureFilePublishedAtomically(t *testing.T) {
	var cases []caseDef
	for _, st := range []string{stAbsent, stPresent} {
		c := base("updater.GetFile(signed)", shared.OpGetFile, st, tmpSandbox)
		c.Verify = true
		cases = append(cases, c)
	}
	c := base("updater.DownloadUpdates(missing signature)", shared.OpDownloadAll, stPresent, tmpSandbox)
	c.Verify, c.SigOnly = true, true
	cases = append(cases, c)
	enumerateAll(t, cases)
}

// TestObservationIndexFileDownload is NOT part of the C17 verdict (no job runs
// it): updater.UpdateIndexes stores the downloaded index (stable.json) with
// os.WriteFile at its final path. Index files are not in the statement's list
// of atomic-replace primitives ("resource downloads" are the versioned
// resources fetched by fetchFile), so this is reported to the framework owner as
// an observation. The test fails while the index is written in place.
func TestObservationIndexFileDownload(t *testing.T) {
	var cases []caseDef
	for _, st := range []string{stAbsent, stPresent} {
		cases = append(cases, base("updater.UpdateIndexes", shared.OpUpdateIndexes, st, tmpSandbox))
	}
	enumerateAll(t, cases)
}

// enumerateAll runs every case completely and at every crash point.
func enumerateAll(t *testing.T, cases []caseDef) {
	t.Helper()
	var full []job
	for _, c := range cases {
		full = append(full, job{c, 0})
	}
	fullRes := runJobs(full)
	reportFailures(t, fullRes)
	var crash []job
	for _, r := range fullRes {
		if r.rep == nil || r.rep.Trace == nil {
			continue
		}
		for k := 1; k <= len(r.rep.Trace.Calls); k++ {
			crash = append(crash, job{r.c, k})
		}
	}
	reportFailures(t, runJobs(crash))
}

var digits = regexp.MustCompile(`[0-9]+`)

// normalise renders a call sequence independent of sandbox path, random
// temp-file suffixes and thread ids.
func normalise(tr *traceResult, sb string) string {
	var b strings.Builder
	for _, c := range tr.Calls {
		p1 := digits.ReplaceAllString(strings.ReplaceAll(c.P1, sb, "<sb>"), "N")
		p2 := digits.ReplaceAllString(strings.ReplaceAll(c.P2, sb, "<sb>"), "N")
		fmt.Fprintf(&b, "%s %s %s %s\n", c.Name, digits.ReplaceAllString(c.Detail, "N"), p1, p2)
	}
	return b.String()
}

// TestExhaustiveDeterminism checks the harness assumption that a writer issues
// the same counted call sequence on every run (K then indexes the same crash
// point in every run). A difference is a generator warning, not a verdict: the
// crash oracle does not depend on it.
func TestExhaustiveDeterminism(t *testing.T) {
	seen := map[string]bool{}
	var jobs []job
	for _, c := range applyExclusions(exhaustiveTable()) {
		key := c.Writer + "|" + c.State
		if seen[key] {
			continue
		}
		seen[key] = true
		for i := 0; i < 5; i++ {
			jobs = append(jobs, job{c, 0})
		}
	}
	res := runJobs(jobs)
	reportFailures(t, res)
	unstable := 0
	for i := 0; i+4 < len(res); i += 5 {
		if res[i].rep == nil {
			continue
		}
		ref := normalise(res[i].rep.Trace, res[i].rep.Sandbox)
		for j := 1; j < 5; j++ {
			if res[i+j].rep == nil {
				continue
			}
			if got := normalise(res[i+j].rep.Trace, res[i+j].rep.Sandbox); got != ref {
				unstable++
				stats.Warn("writer %s (%s): counted call sequence differs between runs", res[i].c.Writer, res[i].c.State)
				t.Logf("sequence of %s differs between runs:\n%s\n--- vs\n%s", res[i].c.id(), ref, got)
				break
			}
		}
		stats.Class("determinism_checked_5_runs")
	}
	t.Logf("%d (writer, state) pairs run 5 times, %d with differing sequences", len(res)/5, unstable)
}

// ---------------------------------------------------------------- generated cases

func genSize(t *rapid.T, label string) int {
	switch rapid.IntRange(0, 9).Draw(t, label+"_class") {
	case 0:
		return 0
	case 1, 2, 3, 4:
		return rapid.IntRange(1, 5000).Draw(t, label+"_small")
	case 5:
		// around the 32 KiB copy buffer
		return 32768*rapid.IntRange(1, 3).Draw(t, label+"_bufs") + rapid.IntRange(-2, 2).Draw(t, label+"_delta")
	case 6, 7:
		return rapid.IntRange(64<<10, 600<<10).Draw(t, label+"_medium")
	default:
		return rapid.IntRange(1<<20, 3<<20).Draw(t, label+"_multi_megabyte")
	}
}

func genCase(t *rapid.T) caseDef {
	type variant struct {
		writer, op string
		states     []string
		tmps       []string
	}
	all3 := []string{stAbsent, stPresent, stPresentMode}
	variants := []variant{
		{"renameio.WriteFile", shared.OpWriteFile, all3, []string{tmpSandbox, tmpForeign}},
		{"renameio.Symlink", shared.OpSymlink, []string{stAbsent, stPresent, stPresentFile, stPresentDir}, []string{tmpSandbox}},
		{"utils.CreateAtomic", shared.OpCreateAtomic, all3, []string{tmpSandbox, tmpForeign, tmpExplicit, tmpExplicitForeign, tmpExplicitMissing}},
		{"utils.CreateAtomic(failing reader)", shared.OpCreateAtomic, []string{stAbsent, stPresent}, []string{tmpSandbox, tmpExplicit}},
		{"utils.CopyFileAtomic", shared.OpCopyAtomic, all3, []string{tmpSandbox, tmpForeign, tmpExplicit, tmpExplicitForeign, tmpExplicitMissing}},
		{"utils.ReplaceFileAtomic", shared.OpReplaceAtomic, all3, []string{tmpSandbox, tmpForeign, tmpExplicit, tmpExplicitForeign, tmpExplicitMissing}},
		{"fstree.Put", shared.OpFstreePut, all3, []string{tmpSandbox, tmpForeign}},
		{"fstree.Put(nested key)", shared.OpFstreePut, []string{stAbsent, stPresent}, []string{tmpSandbox, tmpForeign}},
		{"updater.GetFile", shared.OpGetFile, all3, []string{tmpSandbox}},
		{"updater.GetFile(signed)", shared.OpGetFile, all3, []string{tmpSandbox}},
		{"updater.DownloadUpdates", shared.OpDownloadAll, []string{stAbsent, stPresent}, []string{tmpSandbox}},
		{"updater.DownloadUpdates(signed)", shared.OpDownloadAll, []string{stAbsent, stPresent}, []string{tmpSandbox}},
		{"updater.DownloadUpdates(missing signature)", shared.OpDownloadAll, []string{stPresent}, []string{tmpSandbox}},
		{"updater.UnpackArchive", shared.OpUnpackArchive, []string{stAbsent, stAbsent, stAbsent, stPresent, stBlocked}, []string{tmpSandbox}},
		{"updater.UnpackArchive(bad archive)", shared.OpUnpackArchive, []string{stAbsent}, []string{tmpSandbox}},
		{"updater.UnpackArchive(entry data ends early)", shared.OpUnpackArchive, []string{stAbsent}, []string{tmpSandbox}},
		{"updater.File.Unpack", shared.OpFileUnpack, []string{stAbsent, stAbsent, stPresent}, []string{tmpSandbox}},
	}
	v := variants[rapid.IntRange(0, len(variants)-1).Draw(t, "writer")]
	c := caseDef{Writer: v.writer, Op: v.op, FailAfter: -1}
	c.State = rapid.SampledFrom(v.states).Draw(t, "state")
	c.Tmp = rapid.SampledFrom(v.tmps).Draw(t, "tmp")
	c.OldSize = genSize(t, "old")
	c.NewSize = genSize(t, "new")
	c.OldSeed = rapid.Uint64Range(1, 1<<40).Draw(t, "old_seed")
	c.NewSeed = rapid.Uint64Range(1, 1<<40).Draw(t, "new_seed")
	if c.NewSeed == c.OldSeed {
		c.NewSeed++
	}
	c.OldMode = rapid.SampledFrom([]uint32{0o600, 0o400, 0o755, 0o664}).Draw(t, "old_mode")
	switch v.op {
	case shared.OpWriteFile:
		c.Perm = rapid.SampledFrom([]uint32{0o644, 0o600, 0o755}).Draw(t, "perm")
	case shared.OpCreateAtomic, shared.OpCopyAtomic, shared.OpReplaceAtomic:
		c.Perm = rapid.SampledFrom([]uint32{0, 0, 0o644, 0o600, 0o640}).Draw(t, "mode_option")
		if c.Tmp != tmpExplicit && c.Tmp != tmpExplicitForeign && c.Tmp != tmpExplicitMissing && c.Perm == 0 {
			c.NilOpts = rapid.Bool().Draw(t, "nil_opts")
		}
	}
	if v.op == shared.OpCreateAtomic {
		c.Chunk = rapid.SampledFrom([]int{0, 0, 100, 4096, 32768, 100000}).Draw(t, "chunk")
	}
	if strings.Contains(v.writer, "failing reader") {
		if c.NewSize == 0 {
			c.NewSize = 100
		}
		c.FailAfter = rapid.IntRange(0, shared.MakeContentLen(c.NewSize)-1).Draw(t, "fail_after")
		if c.Chunk == 0 {
			c.Chunk = 4096
		}
	}
	c.Nested = strings.Contains(v.writer, "nested")
	c.Verify = strings.Contains(v.writer, "sign")
	c.SigOnly = strings.Contains(v.writer, "missing signature")
	c.BadArchive = strings.Contains(v.writer, "bad archive")
	if strings.Contains(v.writer, "ends early") {
		c.Damage = rapid.SampledFrom([]string{"truncated_stream", "overstated_size", "bad_crc", "truncated_stream:first", "overstated_size:first", "bad_crc:first"}).Draw(t, "damage")
	}
	switch v.op {
	case shared.OpGetFile, shared.OpDownloadAll, shared.OpUnpackArchive:
		c.StaleTmp = rapid.Bool().Draw(t, "stale_tmp")
	}
	return c
}

// TestPropCrashPoints draws a case (writer, destination state, content sizes up
// to multi-megabyte, modes, temp location), records its N counted calls and
// kills the writer at crash points drawn from [1, N] (all of them when N is
// small).
func TestPropCrashPoints(t *testing.T) {
	rapid.Check(t, func(t *rapid.T) {
		c := genCase(t)
		rep, err := runOne(c, 0, false)
		if err != nil {
			t.Fatalf("%v", err)
		}
		recordRun(c, 0, rep)
		n := len(rep.Trace.Calls)
		stats.Class("generated_counted_calls:" + bucket(n))
		if n == 0 {
			return
		}
		draws := 4
		if stats.Thorough() {
			draws = 6
		}
		ks := map[int]bool{}
		if n <= draws {
			for k := 1; k <= n; k++ {
				ks[k] = true
			}
		} else {
			for i := 0; i < draws; i++ {
				var k int
				switch rapid.IntRange(0, 3).Draw(t, "k_region") {
				case 0: // the set-up (probe, create, chmod)
					k = rapid.IntRange(1, min(n, 8)).Draw(t, "k_head")
				case 1: // the publication (last write, fsync, rename, clean-up)
					k = rapid.IntRange(max(1, n-7), n).Draw(t, "k_tail")
				default:
					k = rapid.IntRange(1, n).Draw(t, "k")
				}
				ks[k] = true
			}
		}
		sorted := make([]int, 0, len(ks))
		for k := range ks {
			sorted = append(sorted, k)
		}
		sort.Ints(sorted)
		for _, k := range sorted {
			rep, err := runOne(c, k, false)
			if err != nil {
				t.Fatalf("%v", err)
			}
			recordRun(c, k, rep)
		}
	})
}

func bucket(n int) string {
	switch {
	case n <= 10:
		return "01-10"
	case n <= 20:
		return "11-20"
	case n <= 40:
		return "21-40"
	case n <= 100:
		return "41-100"
	}
	return "over_100"
}
