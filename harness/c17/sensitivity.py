#!/usr/bin/env python3
# Sensitivity self-test of the C17 check: applies deliberate breakages (m1..m12, see NOTES.md) to the scratch copy
# /dev/shm/repo-b10, runs ./check C17 (expects exit 1 + VIOLATION for each), reverts. Usage: python3 sensitivity.py [m1 m5 ...]
import subprocess, sys, os, time, re
REPO='/dev/shm/repo-b10'
def sub(path, old, new, count=1):
    p=os.path.join(REPO,path); s=open(p).read()
    assert old in s, (path, old[:40])
    open(p,'w').write(s.replace(old,new,count))

def m1():  # no fsync before rename
    sub('utils/renameio/tempfile.go','''	if err := t.Sync(); err != nil {
		return err
	}
''','')
def m2():  # CreateAtomic writes straight to the destination
    sub('utils/atomic.go','''	tmpFile, err := renameio.TempFile(opts.TempDir, dest)
	if err != nil {
		return fmt.Errorf("failed to create temp file: %w", err)
	}
	defer tmpFile.Cleanup() //nolint:errcheck
''','''	tmpFile, err := os.OpenFile(dest, os.O_WRONLY|os.O_CREATE|os.O_TRUNC, 0o600)
	if err != nil {
		return fmt.Errorf("failed to create temp file: %w", err)
	}
	defer tmpFile.Close() //nolint:errcheck
''')
    sub('utils/atomic.go','''	if err := tmpFile.CloseAtomicallyReplace(); err != nil {''','''	if err := tmpFile.Sync(); err != nil {''')
    sub('utils/atomic.go','''	"github.com/safing/portbase/utils/renameio"
''','')
def m3():  # rename before the content is complete
    sub('utils/renameio/writefile.go','''	if _, err := t.Write(data); err != nil {
		return err
	}

	return t.CloseAtomicallyReplace()''','''	half := len(data) / 2
	if _, err := t.Write(data[:half]); err != nil {
		return err
	}
	if err := t.CloseAtomicallyReplace(); err != nil {
		return err
	}
	f, err := os.OpenFile(filename, os.O_WRONLY|os.O_APPEND, 0)
	if err != nil {
		return err
	}
	defer f.Close()
	if _, err := f.Write(data[half:]); err != nil {
		return err
	}
	return f.Sync()''')
def m4():  # fstree Put with os.WriteFile to the final path
    sub('database/storage/fstree/fstree.go','''	t, err := renameio.TempFile("", filename)
	if err != nil {
		return err
	}
	defer t.Cleanup() //nolint:errcheck

	// Set permissions before writing data, in case the data is sensitive.
	if !onWindows {
		if err := t.Chmod(perm); err != nil {
			return err
		}
	}

	if _, err := t.Write(data); err != nil {
		return err
	}

	return t.CloseAtomicallyReplace()''','''	return os.WriteFile(filename, data, perm)''')
    sub('database/storage/fstree/fstree.go','''	"github.com/safing/portbase/utils/renameio"
''','')
def m5():  # unpack directly into the final directory
    sub('updater/unpacking.go','''	tmpDir := filepath.Join(
		res.registry.tmpDir.Path,
		filepath.FromSlash(strings.TrimSuffix(
			path.Base(res.SelectedVersion.versionedPath()),
			zipSuffix,
		)),
	)
''','''	tmpDir := destDir
	_ = path.Base
''')
    sub('updater/unpacking.go','''	err = res.registry.tmpDir.EnsureAbsPath(tmpDir)''','''	err = res.registry.storageDir.EnsureAbsPath(tmpDir)''')
    sub('updater/unpacking.go','''		// Always clean up the tmp dir.
		_ = os.RemoveAll(tmpDir)
''','')
    sub('updater/unpacking.go','''	err = os.Rename(tmpDir, destDir)
''','''	err = nil
''')
def m6():  # Symlink: remove + symlink
    sub('utils/renameio/tempfile.go','''	if err := os.Rename(symlink, newname); err != nil {
		return err
	}
''','''	if err := os.Remove(newname); err != nil {
		return err
	}
	if err := os.Symlink(oldname, newname); err != nil {
		return err
	}
''')
def m7():  # download written directly to the storage path
    sub('updater/fetch.go','''	atomicFile, err := renameio.TempFile(reg.tmpDir.Path, rv.storagePath())
	if err != nil {
		return fmt.Errorf("could not create temp file for download: %w", err)
	}
	defer atomicFile.Cleanup() //nolint:errcheck // ignore error for now, tmp dir will be cleaned later again anyway
''','''	atomicFile, err := os.Create(rv.storagePath())
	if err != nil {
		return fmt.Errorf("could not create temp file for download: %w", err)
	}
	defer atomicFile.Close() //nolint:errcheck
''')
    sub('updater/fetch.go','''	err = atomicFile.CloseAtomicallyReplace()''','''	err = atomicFile.Sync()''')
    sub('updater/fetch.go','''	"github.com/safing/portbase/utils/renameio"
''','')
def m8():  # fsync after the rename instead of before
    sub('utils/renameio/tempfile.go','''	if err := t.Sync(); err != nil {
		return err
	}
	t.closed = true
	if err := t.Close(); err != nil {
		return err
	}
	if err := os.Rename(t.Name(), t.path); err != nil {
		return err
	}
''','''	if err := os.Rename(t.Name(), t.path); err != nil {
		return err
	}
	if err := t.Sync(); err != nil {
		return err
	}
	t.closed = true
	if err := t.Close(); err != nil {
		return err
	}
''')
def m9():  # CopyFileAtomic touches the destination (chmod) before the rename
    sub('utils/atomic.go','''	return CreateAtomic(dest, f, opts)''','''	_ = os.Chmod(dest, opts.Mode|0o100)
	return CreateAtomic(dest, f, opts)''')
def m10():  # File.Unpack (CreateAtomic with TempDir) : the fsync is there but more content follows it
    sub('utils/atomic.go','''	if _, err := io.Copy(tmpFile, r); err != nil {
		return fmt.Errorf("failed to copy source file: %w", err)
	}
''','''	if err := tmpFile.Sync(); err != nil {
		return err
	}
	if _, err := io.Copy(tmpFile, r); err != nil {
		return fmt.Errorf("failed to copy source file: %w", err)
	}
''')
    sub('utils/renameio/tempfile.go','''	if err := t.Sync(); err != nil {
		return err
	}
''','')
def m11():  # revert the signature fix
    subprocess.check_call(['git','-C',REPO,'revert','--no-commit','HEAD'])
def m12():  # unpack: rename first, extract the last file afterwards
    sub('updater/unpacking.go','''	for _, file := range archiveReader.File {
		err = copyFromZipArchive(''','''	for _, file := range archiveReader.File[:len(archiveReader.File)-1] {
		err = copyFromZipArchive(''')
    sub('updater/unpacking.go','''	// Fix permissions on the destination dir.''','''	last := archiveReader.File[len(archiveReader.File)-1]
	err = copyFromZipArchive(last, filepath.Join(destDir, filepath.FromSlash(last.Name)))
	if err != nil {
		return err
	}

	// Fix permissions on the destination dir.''')

MUT={'m1':m1,'m2':m2,'m3':m3,'m4':m4,'m5':m5,'m6':m6,'m7':m7,'m8':m8,'m9':m9,'m10':m10,'m11':m11,'m12':m12}
names=sys.argv[1:] or list(MUT)
env=dict(os.environ, GOFLAGS='-mod=mod',GOPROXY='off',GOSUMDB='off',GOTOOLCHAIN='local',VERIF_REPO=REPO)
for n in names:
    subprocess.check_call(['git','-C',REPO,'checkout','--','.'])
    subprocess.check_call(['git','-C',REPO,'reset','-q','--hard','HEAD'])
    MUT[n]()
    b=subprocess.run(['go','build','./...'],cwd=REPO,env=env,capture_output=True,text=True)
    if b.returncode!=0:
        print(n,'MUTANT DOES NOT BUILD',b.stderr[:500]); continue
    t0=time.time()
    r=subprocess.run(['./check','C17'],cwd='/verif',env=env,capture_output=True,text=True)
    out=r.stdout+r.stderr
    open('/tmp/c17-mutant-%s.log'%n,'w').write(out)
    viol=[l for l in out.splitlines() if l.startswith('VIOLATION')]
    first=re.search(r'C17 violated[^\n]*',out)
    print('%s rc=%d wall=%.0fs violations=%d  %s'%(n,r.returncode,time.time()-t0,len(viol),(first.group(0)[:230] if first else '')),flush=True)
subprocess.check_call(['git','-C',REPO,'checkout','--','.'])
subprocess.check_call(['git','-C',REPO,'reset','-q','--hard','HEAD'])
