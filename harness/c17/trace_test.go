package c17

// Running the child writer under tools/sysstep and parsing its system-call log.

import (
	"bytes"
	"context"
	"encoding/json"
	"fmt"
	"os"
	"os/exec"
	"path/filepath"
	"strconv"
	"strings"
	"time"

	"verifharness/c17/shared"
)

// call is one counted (mutating, sandbox-touching) system call of the writer.
type call struct {
	Index  int
	Tid    int
	Name   string
	Detail string
	P1, P2 string
	Ret    int64
	HasRet bool
}

func (c call) String() string {
	s := fmt.Sprintf("#%d %s(%s", c.Index, c.Name, c.P1)
	if c.P2 != "" {
		s += " -> " + c.P2
	}
	if c.Detail != "" {
		s += "; " + c.Detail
	}
	s += ")"
	if c.HasRet {
		s += " = " + strconv.FormatInt(c.Ret, 10)
	} else {
		s += " <not executed>"
	}
	return s
}

type traceResult struct {
	Calls    []call
	Killed   bool   // writer was killed before call number len(Calls)
	End      string // "exit=0", "exit=3", "killed", "signal=…"
	ExitCode int    // of sysstep
	Stderr   string
}

func (r *traceResult) render(root string) string {
	var b strings.Builder
	for _, c := range r.Calls {
		b.WriteString("    " + strings.ReplaceAll(c.String(), root, "<sb>") + "\n")
	}
	fmt.Fprintf(&b, "    end: %s\n", r.End)
	return b.String()
}

func parseLog(raw []byte) (*traceResult, error) {
	res := &traceResult{}
	byIdx := map[int]int{}
	for _, line := range strings.Split(string(raw), "\n") {
		if line == "" {
			continue
		}
		f := strings.Split(line, "\t")
		switch f[0] {
		case "C":
			if len(f) < 6 {
				return nil, fmt.Errorf("malformed log line %q", line)
			}
			idx, _ := strconv.Atoi(f[1])
			tid, _ := strconv.Atoi(f[2])
			c := call{Index: idx, Tid: tid, Name: f[3], Detail: f[4], P1: f[5]}
			if len(f) > 6 {
				c.P2 = f[6]
			}
			byIdx[idx] = len(res.Calls)
			res.Calls = append(res.Calls, c)
		case "R":
			if len(f) < 3 {
				return nil, fmt.Errorf("malformed log line %q", line)
			}
			idx, _ := strconv.Atoi(f[1])
			v, _ := strconv.ParseInt(f[2], 10, 64)
			if i, ok := byIdx[idx]; ok {
				res.Calls[i].Ret = v
				res.Calls[i].HasRet = true
			}
		case "K":
			res.Killed = true
		case "E":
			if len(f) >= 3 {
				res.End = f[2]
			}
		default:
			return nil, fmt.Errorf("unknown log line %q", line)
		}
	}
	if res.End == "" {
		return nil, fmt.Errorf("log has no end line:\n%s", raw)
	}
	for i, c := range res.Calls {
		if c.Index != i+1 {
			return nil, fmt.Errorf("log indices not consecutive at %d", i)
		}
	}
	return res, nil
}

// runDirs are the directories of one traced run.
type runDirs struct {
	Base    string // everything of this run
	Sandbox string // the directory sysstep watches (<dir>)
	In      string // case file, log (outside the sandbox)
	TmpEnv  string // value of TMPDIR for the writer
}

func newRunDirs(base string) (*runDirs, error) {
	d := &runDirs{Base: base, Sandbox: filepath.Join(base, "sb"), In: filepath.Join(base, "in")}
	for _, p := range []string{d.Sandbox, d.In} {
		if err := os.MkdirAll(p, 0o755); err != nil {
			return nil, err
		}
	}
	return d, nil
}

// runTraced executes the writer for spec under sysstep, killing it before its
// K-th counted call (K = 0: never).
func runTraced(d *runDirs, spec *shared.Spec, k int) (*traceResult, error) {
	sysstep, writer := os.Getenv("VERIF_BIN_SYSSTEP"), os.Getenv("VERIF_BIN_ATOMICWRITER")
	if sysstep == "" || writer == "" {
		return nil, fmt.Errorf("VERIF_BIN_SYSSTEP / VERIF_BIN_ATOMICWRITER not set (run through /verif/check)")
	}
	caseFile := filepath.Join(d.In, "case.json")
	raw, err := json.Marshal(spec)
	if err != nil {
		return nil, err
	}
	if err := os.WriteFile(caseFile, raw, 0o644); err != nil {
		return nil, err
	}
	logFile := filepath.Join(d.In, fmt.Sprintf("syscalls-k%d.log", k))
	// The deadline only guards the harness against a wedged child; it is not a verdict.
	ctx, cancel := context.WithTimeout(context.Background(), 5*time.Minute)
	defer cancel()
	cmd := exec.CommandContext(ctx, sysstep, d.Sandbox, strconv.Itoa(k), logFile, "--", writer, caseFile)
	env := []string{"TMPDIR=" + d.TmpEnv, "GOMAXPROCS=2", "HOME=" + d.In, "PATH=" + os.Getenv("PATH")}
	cmd.Env = env
	cmd.Dir = d.In
	var stderr bytes.Buffer
	cmd.Stderr = &stderr
	cmd.Stdout = &stderr
	runErr := cmd.Run()
	code := 0
	if runErr != nil {
		ee, ok := runErr.(*exec.ExitError)
		if !ok {
			return nil, fmt.Errorf("cannot run sysstep: %w", runErr)
		}
		code = ee.ExitCode()
	}
	if ctx.Err() != nil {
		return nil, fmt.Errorf("traced writer did not finish within the harness deadline (infrastructure)")
	}
	if code == 2 || code < 0 {
		return nil, fmt.Errorf("sysstep failed (status %d): %s", code, stderr.String())
	}
	lg, err := os.ReadFile(logFile)
	if err != nil {
		return nil, err
	}
	res, err := parseLog(lg)
	if err != nil {
		return nil, err
	}
	res.ExitCode = code
	res.Stderr = stderr.String()
	if (code == 10) != res.Killed {
		return nil, fmt.Errorf("sysstep status %d disagrees with its log (killed=%v)", code, res.Killed)
	}
	if res.Killed {
		if len(res.Calls) != k {
			return nil, fmt.Errorf("killed at call %d, asked for %d", len(res.Calls), k)
		}
		if last := res.Calls[len(res.Calls)-1]; last.HasRet {
			return nil, fmt.Errorf("the call the writer was killed at has a return value: %s", last)
		}
	}
	return res, nil
}
