package c17

// Concurrent readers: while one goroutine replaces the destination many times
// through a primitive, four reader goroutines keep reading it. Every read that
// succeeds must return one of the complete contents; a destination that existed
// must never be missing.

import (
	"bytes"
	"context"
	"errors"
	"fmt"
	"io"
	"io/fs"
	"os"
	"path/filepath"
	"runtime"
	"sync"
	"sync/atomic"
	"syscall"
	"testing"

	"github.com/safing/portbase/database/record"
	"github.com/safing/portbase/database/storage"
	"github.com/safing/portbase/database/storage/fstree"
	"github.com/safing/portbase/updater"
	"github.com/safing/portbase/utils"
	"github.com/safing/portbase/utils/renameio"
	"pgregory.net/rapid"

	"verifharness/c17/shared"
	"verifharness/internal/stats"
)

type readerSetup struct {
	writer string
	iters  int
	// prepare returns: write(i) publishing version i, read() returning the
	// bytes currently visible (ok=false: legitimately nothing there yet), and
	// check(b) validating what was read.
	prepare func(t *rapid.T, dir string, sizes []int, seed0 uint64, present bool) (write func(i int) error, read func(chunked bool) ([]byte, bool, error))
}

func sizeFor(sizes []int, i int) int { return sizes[i%len(sizes)] }

// readWhole / readChunked read a file the way a consumer would.
func readFile(p string, chunked bool) ([]byte, error) {
	if !chunked {
		return os.ReadFile(p)
	}
	f, err := os.Open(p)
	if err != nil {
		return nil, err
	}
	defer f.Close()
	var out []byte
	buf := make([]byte, 1000)
	for {
		n, err := f.Read(buf)
		out = append(out, buf[:n]...)
		if err == io.EOF {
			return out, nil
		}
		if err != nil {
			return nil, err
		}
		runtime.Gosched()
	}
}

func fileSetup(writer string, put func(dest, src string, data []byte, stage string) error) readerSetup {
	return readerSetup{writer: writer, iters: 200, prepare: func(t *rapid.T, dir string, sizes []int, seed0 uint64, present bool) (func(int) error, func(bool) ([]byte, bool, error)) {
		dest := filepath.Join(dir, "dst", "target.bin")
		src := filepath.Join(dir, "src.bin")
		stage := filepath.Join(dir, "stage")
		_ = os.MkdirAll(filepath.Dir(dest), 0o755)
		_ = os.MkdirAll(stage, 0o755)
		if present {
			if err := os.WriteFile(dest, shared.MakeContent(seed0, sizeFor(sizes, 0)), 0o644); err != nil {
				t.Fatalf("harness: %v", err)
			}
		}
		write := func(i int) error {
			data := shared.MakeContent(seed0+uint64(i), sizeFor(sizes, i))
			if err := os.WriteFile(src, data, 0o644); err != nil {
				return fmt.Errorf("harness: %w", err)
			}
			return put(dest, src, data, stage)
		}
		read := func(chunked bool) ([]byte, bool, error) {
			b, err := readFile(dest, chunked)
			if errors.Is(err, fs.ErrNotExist) {
				return nil, false, nil
			}
			return b, err == nil, err
		}
		return write, read
	}}
}

func readerSetups() []readerSetup {
	out := []readerSetup{
		fileSetup("renameio.WriteFile", func(dest, src string, data []byte, stage string) error {
			return renameio.WriteFile(dest, data, 0o644)
		}),
		fileSetup("utils.CreateAtomic", func(dest, src string, data []byte, stage string) error {
			return utils.CreateAtomic(dest, bytes.NewReader(data), nil)
		}),
		fileSetup("utils.CreateAtomic(TempDir)", func(dest, src string, data []byte, stage string) error {
			return utils.CreateAtomic(dest, io.MultiReader(bytes.NewReader(data)), &utils.AtomicFileOptions{TempDir: stage, Mode: 0o644})
		}),
		fileSetup("utils.CopyFileAtomic", func(dest, src string, data []byte, stage string) error {
			return utils.CopyFileAtomic(dest, src, nil)
		}),
		// the source is a named pipe: what a stat call says about the size of the source has nothing to do with what
		// reading it to its end delivers
		fileSetup("utils.CopyFileAtomic(named pipe)", func(dest, src string, data []byte, stage string) error {
			fifo := filepath.Join(stage, "src.fifo")
			if err := syscall.Mkfifo(fifo, 0o644); err != nil {
				return fmt.Errorf("harness: %w", err)
			}
			defer os.Remove(fifo)
			fed := make(chan error, 1)
			go func() {
				f, err := os.OpenFile(fifo, os.O_WRONLY, 0)
				if err != nil {
					fed <- err
					return
				}
				_, err = f.Write(data)
				if cerr := f.Close(); err == nil {
					err = cerr
				}
				fed <- err
			}()
			err := utils.CopyFileAtomic(dest, fifo, nil)
			if err != nil {
				// release a feeder that still waits for the other end
				if f, e := os.OpenFile(fifo, os.O_RDONLY|syscall.O_NONBLOCK, 0); e == nil {
					_ = f.Close()
				}
				<-fed
				return err
			}
			if ferr := <-fed; ferr != nil {
				return fmt.Errorf("CopyFileAtomic reported success but did not read its source (a named pipe fed with %d bytes) to the end: %w", len(data), ferr)
			}
			return nil
		}),
		fileSetup("utils.ReplaceFileAtomic", func(dest, src string, data []byte, stage string) error {
			return utils.ReplaceFileAtomic(dest, src, &utils.AtomicFileOptions{TempDir: stage})
		}),
	}

	// records of the file-tree backend, read back through the backend
	out = append(out, readerSetup{writer: "fstree.Put", iters: 200, prepare: func(t *rapid.T, dir string, sizes []int, seed0 uint64, present bool) (func(int) error, func(bool) ([]byte, bool, error)) {
		st, err := fstree.NewFSTree(shared.FstreeDBName, filepath.Join(dir, "db"))
		if err != nil {
			t.Fatalf("harness: %v", err)
		}
		key := "lvl1/rec"
		if present {
			if _, err := st.Put(shared.Record(key, shared.MakeContent(seed0, sizeFor(sizes, 0)))); err != nil {
				t.Fatalf("harness: initial Put: %v", err)
			}
		}
		write := func(i int) error {
			_, err := st.Put(shared.Record(key, shared.MakeContent(seed0+uint64(i), sizeFor(sizes, i))))
			return err
		}
		read := func(chunked bool) ([]byte, bool, error) {
			r, err := st.Get(key)
			if errors.Is(err, storage.ErrNotFound) {
				return nil, false, nil
			}
			if err != nil {
				return nil, false, err
			}
			w, isWrapper := r.(*record.Wrapper)
			if !isWrapper {
				return nil, false, fmt.Errorf("fstree.Get returned %T", r)
			}
			return w.Data, true, nil
		}
		return write, read
	}})

	return out
}

// TestPropReadersSeeCompleteFiles: 200 replacements per case, 4 readers.
func TestPropReadersSeeCompleteFiles(t *testing.T) {
	setups := readerSetups()
	var caseNo atomic.Int64
	rapid.Check(t, func(t *rapid.T) {
		su := setups[rapid.IntRange(0, len(setups)-1).Draw(t, "writer")]
		present := rapid.IntRange(0, 3).Draw(t, "initially_present") > 0
		sameMount := rapid.Bool().Draw(t, "tmpdir_same_mount")
		sizes := []int{genReaderSize(t, "size_a"), genReaderSize(t, "size_b"), genReaderSize(t, "size_c")}
		seed0 := rapid.Uint64Range(1, 1<<40).Draw(t, "seed")

		dir := filepath.Join(scratchRoot, fmt.Sprintf("readers%06d", caseNo.Add(1)))
		if err := os.MkdirAll(filepath.Join(dir, "tmp"), 0o755); err != nil {
			t.Fatalf("harness: %v", err)
		}
		defer os.RemoveAll(dir)
		oldTmp, hadTmp := os.LookupEnv("TMPDIR")
		if sameMount {
			os.Setenv("TMPDIR", filepath.Join(dir, "tmp"))
		} else {
			os.Setenv("TMPDIR", foreignRoot)
		}
		defer func() {
			if hadTmp {
				os.Setenv("TMPDIR", oldTmp)
			} else {
				os.Unsetenv("TMPDIR")
			}
		}()

		write, read := su.prepare(t, dir, sizes, seed0, present)

		validate := func(b []byte) error {
			seed, err := shared.Validate(b)
			if err != nil {
				return err
			}
			if len(b) == 0 {
				for _, s := range sizes {
					if s == 0 {
						return nil
					}
				}
				return fmt.Errorf("read an empty file although no version is empty")
			}
			if seed < seed0 || seed > seed0+uint64(su.iters) {
				return fmt.Errorf("content carries seed %d outside the written range [%d,%d]", seed, seed0, seed0+uint64(su.iters))
			}
			if want := shared.MakeContent(seed, sizeFor(sizes, int(seed-seed0))); !bytes.Equal(b, want) {
				return fmt.Errorf("content with seed %d differs from version %d (%d vs %d bytes)", seed, seed-seed0, len(b), len(want))
			}
			return nil
		}

		ctx, cancel := context.WithCancel(context.Background())
		var wg sync.WaitGroup
		var firstErr atomic.Value
		var reads, missing atomic.Int64
		for r := 0; r < 4; r++ {
			wg.Add(1)
			go func(r int) {
				defer wg.Done()
				seen := present
				for n := 0; ctx.Err() == nil; n++ {
					b, ok, err := read(r%2 == 1)
					switch {
					case err != nil:
						firstErr.CompareAndSwap(nil, fmt.Errorf("reader %d: read failed: %w", r, err))
						return
					case !ok:
						missing.Add(1)
						if seen {
							firstErr.CompareAndSwap(nil, fmt.Errorf("reader %d: the destination existed and is now missing (a replacement must never make it disappear)", r))
							return
						}
					default:
						seen = true
						reads.Add(1)
						if err := validate(b); err != nil {
							firstErr.CompareAndSwap(nil, fmt.Errorf("reader %d observed a partial or foreign file: %w", r, err))
							return
						}
					}
					if n%7 == r {
						runtime.Gosched()
					}
				}
			}(r)
		}
		var werr error
		for i := 1; i <= su.iters && firstErr.Load() == nil; i++ {
			if werr = write(i); werr != nil {
				break
			}
		}
		cancel()
		wg.Wait()
		if werr != nil {
			t.Fatalf("%s: replacement failed: %v", su.writer, werr)
		}
		if e := firstErr.Load(); e != nil {
			t.Fatalf("C17 violated (concurrent readers, writer %s, sizes %v, initially present %v, TMPDIR same mount %v): %v", su.writer, sizes, present, sameMount, e)
		}
		// the last replacement is what the destination shows in the end
		if b, ok, err := read(false); err != nil || !ok || !bytes.Equal(b, shared.MakeContent(seed0+uint64(su.iters), sizeFor(sizes, su.iters))) {
			t.Fatalf("C17 violated: after %d successful replacements through %s the destination does not hold the last version (present %v, %d bytes, read error %v; sizes %v)", su.iters, su.writer, ok, len(b), err, sizes)
		}
		// nothing but the destination (and the harness' own files) may remain: no stray temp files after successful operations
		if left := strayFiles(dir); len(left) > 0 {
			t.Fatalf("C17 violated: after %d successful replacements through %s temporary files remain: %v", su.iters, su.writer, left)
		}
		stats.Case(fmt.Sprintf("readers|%s|%v|%v|%d|%v", su.writer, sizes, present, seed0, sameMount), reads.Load() > 0,
			"readers:"+su.writer, fmt.Sprintf("readers_initially_present:%v", present), fmt.Sprintf("readers_tmpdir_same_mount:%v", sameMount))
		stats.ClassN("reader_reads_validated", reads.Load())
		if stats.WantSample("readers") {
			stats.Sample("readers", map[string]any{"writer": su.writer, "replacements": su.iters, "sizes": sizes, "validated_reads": reads.Load(), "reads_before_first_publication": missing.Load()})
		}
	})
}

func genReaderSize(t *rapid.T, label string) int {
	switch rapid.IntRange(0, 5).Draw(t, label+"_class") {
	case 0:
		return 0
	case 1, 2, 3:
		return rapid.IntRange(1, 20000).Draw(t, label)
	default:
		return rapid.IntRange(20000, 300000).Draw(t, label)
	}
}

func strayFiles(dir string) []string {
	var out []string
	_ = filepath.WalkDir(dir, func(p string, d fs.DirEntry, err error) error {
		if err != nil || d.IsDir() {
			return nil
		}
		rel, _ := filepath.Rel(dir, p)
		switch rel {
		case "src.bin", filepath.Join("dst", "target.bin"), filepath.Join("db", "lvl1", "rec"):
			return nil
		}
		out = append(out, rel)
		return nil
	})
	return out
}

// ---------------------------------------------------------------- symlinks and the updater (fewer iterations)

// TestPropReadersSymlinkAndUpdater covers the destinations that are not plain
// replaced files: the symlink helper (readlink must always give one of the
// targets), downloads, gzip unpacking and archive unpacking (the destination is
// either not there yet or complete).
func TestPropReadersSymlinkAndUpdater(t *testing.T) {
	var caseNo atomic.Int64
	rapid.Check(t, func(t *rapid.T) {
		kind := rapid.SampledFrom([]string{"renameio.Symlink", "updater.GetFile", "updater.File.Unpack", "updater.UnpackArchive"}).Draw(t, "writer")
		sizes := []int{genReaderSize(t, "size_a"), genReaderSize(t, "size_b")}
		seed0 := rapid.Uint64Range(1, 1<<40).Draw(t, "seed")
		dir := filepath.Join(scratchRoot, fmt.Sprintf("readers2-%06d", caseNo.Add(1)))
		if err := os.MkdirAll(dir, 0o755); err != nil {
			t.Fatalf("harness: %v", err)
		}
		defer os.RemoveAll(dir)

		type version struct {
			path string
			data []byte
			tree map[string][]byte
			link string
		}
		var current atomic.Pointer[version]
		var write func(i int) error
		iters := 25

		switch kind {
		case "renameio.Symlink":
			iters = 200
			dest := filepath.Join(dir, "current")
			if err := os.Symlink(fmt.Sprintf("releases/v%d", seed0), dest); err != nil {
				t.Fatalf("harness: %v", err)
			}
			current.Store(&version{path: dest})
			write = func(i int) error { return renameio.Symlink(fmt.Sprintf("releases/v%d", seed0+uint64(i)), dest) }
		default:
			storageDir := filepath.Join(dir, "updates")
			token := fmt.Sprintf("/r%06d-%d", caseNo.Load(), seed0)
			reg := &updater.ResourceRegistry{Name: "c17r", UpdateURLs: []string{server().URL + token}, Online: true}
			if err := reg.Initialize(utils.NewDirStructure(storageDir, 0o755)); err != nil {
				t.Fatalf("harness: %v", err)
			}
			var stored []string
			defer func() {
				for _, k := range stored {
					srvFiles.Delete(k)
				}
			}()
			idx := &updater.Index{Path: "stable.json", AutoDownload: true}
			write = func(i int) error {
				ver := fmt.Sprintf("1.0.%d", i)
				data := shared.MakeContent(seed0+uint64(i), sizeFor(sizes, i))
				switch kind {
				case "updater.GetFile":
					id := "x/data.bin"
					rel := fmt.Sprintf("x/data_v1-0-%d.bin", i)
					serve(token+"/"+rel, data, 0)
					stored = append(stored, token+"/"+rel)
					current.Store(&version{path: filepath.Join(storageDir, filepath.FromSlash(rel)), data: data})
					if err := reg.AddResource(id, ver, idx, false, true, false); err != nil {
						return err
					}
					reg.SelectVersions()
					_, err := reg.GetFile(id)
					return err
				case "updater.File.Unpack":
					id := "x/data.txt.gz"
					packed := filepath.Join(storageDir, "x", fmt.Sprintf("data_v1-0-%d.txt.gz", i))
					if err := writeFileMode(packed, gzipMembers(data, 1+i%3), 0o644); err != nil {
						return err
					}
					current.Store(&version{path: filepath.Join(storageDir, "x", fmt.Sprintf("data_v1-0-%d.txt", i)), data: data})
					if err := reg.AddResource(id, ver, nil, true, true, false); err != nil {
						return err
					}
					reg.SelectVersions()
					f, err := reg.GetFile(id)
					if err != nil {
						return err
					}
					_, err = f.Unpack(".gz", updater.UnpackGZIP)
					return err
				default:
					id := "x/pkg.zip"
					tree := map[string][]byte{"a.bin": data, "sub": nil, "sub/b.bin": shared.MakeContent(seed0+uint64(i)+7, 500)}
					archive := filepath.Join(storageDir, "x", fmt.Sprintf("pkg_v1-0-%d.zip", i))
					if err := writeFileMode(archive, zipArchive(tree, []string{"a.bin", "sub", "sub/b.bin"}), 0o644); err != nil {
						return err
					}
					current.Store(&version{path: filepath.Join(storageDir, "x", fmt.Sprintf("pkg_v1-0-%d", i)), tree: tree})
					if err := reg.AddResource(id, ver, nil, true, true, false); err != nil {
						return err
					}
					reg.SelectVersions()
					reg.AutoUnpack = []string{id}
					return reg.UnpackResources()
				}
			}
		}

		ctx, cancel := context.WithCancel(context.Background())
		var wg sync.WaitGroup
		var firstErr atomic.Value
		var reads atomic.Int64
		for r := 0; r < 4; r++ {
			wg.Add(1)
			go func(r int) {
				defer wg.Done()
				for ctx.Err() == nil {
					v := current.Load()
					if v == nil {
						runtime.Gosched()
						continue
					}
					switch {
					case kind == "renameio.Symlink":
						l, err := os.Readlink(v.path)
						if err != nil {
							firstErr.CompareAndSwap(nil, fmt.Errorf("reader %d: readlink failed while the link is being replaced: %w", r, err))
							return
						}
						var n uint64
						if _, err := fmt.Sscanf(l, "releases/v%d", &n); err != nil || n < seed0 || n > seed0+uint64(iters) {
							firstErr.CompareAndSwap(nil, fmt.Errorf("reader %d: link target %q is none of the written targets", r, l))
							return
						}
						reads.Add(1)
					case v.tree != nil:
						if _, err := os.Lstat(v.path); errors.Is(err, fs.ErrNotExist) {
							continue
						}
						for rel, want := range v.tree {
							if want == nil {
								continue
							}
							b, err := os.ReadFile(filepath.Join(v.path, filepath.FromSlash(rel)))
							if err != nil || !bytes.Equal(b, want) {
								firstErr.CompareAndSwap(nil, fmt.Errorf("reader %d: unpacked directory %s is visible but %s is incomplete (%d of %d bytes, err %v)", r, v.path, rel, len(b), len(want), err))
								return
							}
						}
						reads.Add(1)
					default:
						b, err := readFile(v.path, r%2 == 1)
						if errors.Is(err, fs.ErrNotExist) {
							continue
						}
						if err != nil || !bytes.Equal(b, v.data) {
							firstErr.CompareAndSwap(nil, fmt.Errorf("reader %d: %s is visible but incomplete (%d of %d bytes, err %v)", r, v.path, len(b), len(v.data), err))
							return
						}
						reads.Add(1)
					}
				}
			}(r)
		}
		var werr error
		for i := 1; i <= iters && firstErr.Load() == nil; i++ {
			if werr = write(i); werr != nil {
				break
			}
		}
		cancel()
		wg.Wait()
		if werr != nil {
			t.Fatalf("%s: operation failed: %v", kind, werr)
		}
		if e := firstErr.Load(); e != nil {
			t.Fatalf("C17 violated (concurrent readers, writer %s): %v", kind, e)
		}
		stats.Case(fmt.Sprintf("readers2|%s|%v|%d", kind, sizes, seed0), reads.Load() > 0, "readers:"+kind)
		stats.ClassN("reader_reads_validated", reads.Load())
	})
}

var _ = testing.Short
