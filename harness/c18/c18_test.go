package c18

import (
	"fmt"
	"os"
	"path/filepath"
	"strings"
	"testing"

	"github.com/safing/portbase/log"
	"pgregory.net/rapid"

	"verifharness/internal/stats"
)

func TestMain(m *testing.M) {
	// portbase's logger is never started here; lines at or above the level
	// would each park a goroutine until log.Start. Only critical lines remain.
	log.SetLogLevel(log.CriticalLevel)
	if os.Getenv(traceChildEnv) != "" {
		os.Exit(traceChildMain())
	}
	stats.Main(m)
}

// ---------------------------------------------------------------- generated

func TestPropFstree(t *testing.T) {
	rapid.Check(t, func(t *rapid.T) {
		sb := drawSandbox(t, true)
		defer sb.remove()
		st := openFstree(t, sb)
		c := newChecker(t, sb)
		n := rapid.IntRange(1, 8).Draw(t, "nops")
		var fp strings.Builder
		fmt.Fprintf(&fp, "fstree:%s:%d", sb.rootName, sb.depth)
		nontrivial := false
		for i := 0; i < n; i++ {
			op := rapid.IntRange(0, numFstreeOps-1).Draw(t, "op")
			key := genRelName(t, sb)
			where := c.fstreeOp(st, op, key)
			comp := "fstree_" + strings.ToLower(fstreeOpNames[op])
			sb.nameClasses(comp, key, where)
			sb.nameClasses("fstree", key, where)
			nontrivial = nontrivial || where != inside
			fmt.Fprintf(&fp, "|%d:%s", op, key)
		}
		stats.Case(fp.String(), nontrivial)
		if stats.WantSample("fstree") {
			stats.Sample("fstree", map[string]any{"root": sb.rel(sb.root), "ops": fp.String()})
		}
	})
}

var perms = []os.FileMode{0o755, 0o700, 0o777}

func TestPropDirStructure(t *testing.T) {
	rapid.Check(t, func(t *rapid.T) {
		sb := drawSandbox(t, false)
		defer sb.remove()
		c := newChecker(t, sb)
		n := rapid.IntRange(1, 6).Draw(t, "nops")
		var fp strings.Builder
		fmt.Fprintf(&fp, "ds:%s:%d", sb.rootName, sb.depth)
		nontrivial := false
		for i := 0; i < n; i++ {
			op := rapid.IntRange(0, numDsOps-1).Draw(t, "op")
			perm := rapid.SampledFrom(perms).Draw(t, "perm")
			var arg string
			if op == dsAbs {
				arg = genAbsPath(t, sb)
			} else {
				arg = genRelName(t, sb)
			}
			where := c.dirStructureOp(op, arg, perm)
			shown := strings.ReplaceAll(arg, sb.top, "<top>")
			sb.nameClasses("dirstructure", shown, where)
			stats.Class("dirstructure_" + dsOpNames[op] + "_" + where.String())
			nontrivial = nontrivial || where == escaping
			fmt.Fprintf(&fp, "|%d:%o:%s", op, perm, shown)
		}
		stats.Case(fp.String(), nontrivial)
		if stats.WantSample("dirstructure") {
			stats.Sample("dirstructure", map[string]any{"root": sb.rel(sb.root), "ops": fp.String()})
		}
	})
}

func TestPropScanStorage(t *testing.T) {
	rapid.Check(t, func(t *rapid.T) {
		sb := drawSandbox(t, false)
		defer sb.remove()
		// more versioned files inside the storage dir
		mustWrite(t, filepath.Join(sb.root, "a", "x_v2-0-0"), []byte(insideMarker))
		mustWrite(t, filepath.Join(sb.root, sb.rootName+"-other", "y_v0-1-0.zip"), []byte(insideMarker))
		n := rapid.IntRange(1, 3).Draw(t, "nscans")
		var fp strings.Builder
		fmt.Fprintf(&fp, "scan:%s:%d", sb.rootName, sb.depth)
		nontrivial := false
		for i := 0; i < n; i++ {
			reg := newRegistry(t, sb)
			c := newChecker(t, sb)
			arg := genAbsPath(t, sb)
			where := c.scanOp(reg, arg)
			shown := strings.ReplaceAll(arg, sb.top, "<top>")
			sb.nameClasses("scanstorage", shown, where)
			if where != escaping && len(reg.Export()) > 0 {
				stats.Class("scanstorage_found_resources")
			}
			nontrivial = nontrivial || where == escaping
			fmt.Fprintf(&fp, "|%s", shown)
		}
		stats.Case(fp.String(), nontrivial)
		if stats.WantSample("scanstorage") {
			stats.Sample("scanstorage", map[string]any{"storage": sb.rel(sb.root), "roots": fp.String()})
		}
	})
}

func TestPropUnpackZip(t *testing.T) {
	rapid.Check(t, func(t *rapid.T) {
		sb := drawSandbox(t, false)
		defer sb.remove()
		n := rapid.IntRange(1, 4).Draw(t, "nentries")
		var entries []zipEntry
		for i := 0; i < n; i++ {
			var name string
			if rapid.IntRange(0, 2).Draw(t, "plain") == 0 {
				name = rapid.SampledFrom([]string{"a", "a/f", "b", "sub", "sub/x_v2-0-0", "in"}).Draw(t, "plainName")
			} else {
				name = genRelName(t, sb)
			}
			dir := rapid.IntRange(0, 3).Draw(t, "dirEntry") == 0
			entries = append(entries, zipEntry{Name: name, Dir: dir})
		}
		escapes := unpackOp(t, sb, entries)
		_, tmpDir, _ := zipPaths(sb.root)
		for _, e := range entries {
			sb.nameClasses("unpack_entry", e.Name, locate(tmpDir, filepath.Join(tmpDir, e.Name)))
		}
		if escapes {
			stats.Class("unpack_archive_escaping")
		} else {
			stats.Class("unpack_archive_contained")
			if _, _, dest := zipPaths(sb.root); dirExists(dest) {
				stats.Class("unpack_archive_contained_and_unpacked")
			}
		}
		fp := fmt.Sprintf("zip:%s:%d:%+v", sb.rootName, sb.depth, entries)
		stats.Case(fp, escapes)
		if stats.WantSample("unpack") {
			stats.Sample("unpack", map[string]any{"storage": sb.rel(sb.root), "entries": entries})
		}
	})
}

func dirExists(p string) bool {
	fi, err := os.Stat(p)
	return err == nil && fi.IsDir()
}

// ---------------------------------------------------------------- exhaustive

// exhaustiveAlphabet is the reduced segment set that is enumerated completely.
func exhaustiveAlphabet(rootName string) []string {
	return []string{".", "..", "", "a", "canary", rootName, rootName + "-other", rootName + "2"}
}

// enumerate calls f with every sequence of 1..maxLen segments.
func enumerate(alpha []string, maxLen int, f func(segs []string)) {
	var rec func(prefix []string)
	rec = func(prefix []string) {
		if len(prefix) > 0 {
			f(prefix)
		}
		if len(prefix) == maxLen {
			return
		}
		for _, s := range alpha {
			rec(append(prefix, s))
		}
	}
	rec(nil)
}

func exhaustiveLen() int {
	if stats.Thorough() {
		return 4
	}
	return 3
}

// TestExhaustiveNames runs every name of up to 3 (thorough: 4) segments of the
// reduced alphabet, with and without a trailing separator, against roots at
// depth 1..3 through every fstree operation, the relative DirStructure calls,
// EnsureAbsPath (root + "/" + name, unclean) and ScanStorage (same path).
func TestExhaustiveNames(t *testing.T) {
	const rootName = "fstree"
	var total, nontrivial int64
	for depth := 1; depth <= 3; depth++ {
		var sb *sandbox
		var c *checker
		used := 0
		fresh := func() {
			if sb != nil {
				sb.remove()
			}
			sb = newSandbox(t, rootName, depth, false)
			c = newChecker(t, sb)
			used = 0
		}
		fresh()
		enumerate(exhaustiveAlphabet(rootName), exhaustiveLen(), func(segs []string) {
			for _, trailing := range []string{"", "/"} {
				name := strings.Join(segs, "/") + trailing
				if used >= 40 {
					fresh() // keep the root small: what accumulates inside is legal but slows the snapshots
				}
				used++
				st := openFstree(t, sb)
				var where place
				for op := 0; op < numFstreeOps; op++ {
					where = c.fstreeOp(st, op, name)
					total++
				}
				for _, op := range []int{dsRelPath, dsRelDir, dsChild} {
					c.dirStructureOp(op, name, 0o755)
					total++
				}
				abs := sb.root + "/" + name
				c.dirStructureOp(dsAbs, abs, 0o755)
				reg := newRegistry(t, sb)
				c.last = takeSnapshot(t, sb.top) // Initialize may (re)create <root>/tmp
				c.scanOp(reg, abs)
				total += 2
				if where != inside {
					nontrivial++
				}
			}
		})
		sb.remove()
	}
	stats.CaseN(total, nontrivial, "exhaustive_names")
	stats.Exhaustive(fmt.Sprintf("all names of <=%d segments over {., .., empty, a, canary, <root>, <root>-other, <root>2} (with/without trailing separator) x root depth 1-3 x fstree Put/Get/GetMeta/Delete/Query, EnsureRelPath/RelDir/ChildDir/AbsPath, ScanStorage", exhaustiveLen()))
}

// TestExhaustiveZipEntries unpacks one archive per name (single entry, as file and as directory,
// and behind a harmless first entry).
func TestExhaustiveZipEntries(t *testing.T) {
	const rootName = "store"
	var total, nontrivial int64
	maxLen := exhaustiveLen()
	for depth := 1; depth <= 3; depth += 2 {
		enumerate(exhaustiveAlphabet(rootName), maxLen, func(segs []string) {
			name := strings.Join(segs, "/")
			for variant := 0; variant < 3; variant++ {
				if variant > 0 && len(segs) == maxLen && !stats.Thorough() {
					continue // the longest names only as a single file entry in the quick tier
				}
				sb := newSandbox(t, rootName, depth, false)
				var entries []zipEntry
				switch variant {
				case 0:
					entries = []zipEntry{{Name: name}}
				case 1:
					entries = []zipEntry{{Name: name, Dir: true}}
				default:
					entries = []zipEntry{{Name: "ok"}, {Name: name}}
				}
				if unpackOp(t, sb, entries) {
					nontrivial++
				}
				total++
				sb.remove()
			}
		})
	}
	stats.CaseN(total, nontrivial, "exhaustive_zip_entries")
	stats.Exhaustive(fmt.Sprintf("zip archives with one generated entry name of <=%d segments over the reduced alphabet (file, directory, after a harmless entry) x storage depth 1 and 3", maxLen))
}
