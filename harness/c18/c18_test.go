package c18

import (
	"fmt"
	"os"
	"path/filepath"
	"strings"
	"sync/atomic"
	"testing"

	"github.com/safing/portbase/log"
	"pgregory.net/rapid"

	"verifharness/internal/stats"
)

func TestMain(m *testing.M) {
	// portbase's logger is never started here; lines at or above the level
	// would each park a goroutine until log.Start. Only critical lines remain.
	log.SetLogLevel(log.CriticalLevel)
	if os.Getenv(traceChildEnv) != "" {
		os.Exit(traceChildMain())
	}
	stats.Main(m)
}

// ---------------------------------------------------------------- generated

func TestPropFstree(t *testing.T) {
	rapid.Check(t, func(t *rapid.T) {
		sb := drawSandbox(t, true)
		defer sb.remove()
		st := openFstree(t, sb)
		c := newChecker(t, sb)
		n := rapid.IntRange(1, 8).Draw(t, "nops")
		var fp strings.Builder
		fmt.Fprintf(&fp, "fstree:%s:%d", sb.rootName, sb.depth)
		nontrivial := false
		for i := 0; i < n; i++ {
			op := rapid.IntRange(0, numFstreeOps-1).Draw(t, "op")
			key := genRelName(t, sb)
			where := c.fstreeOp(st, op, key)
			comp := "fstree_" + strings.ToLower(fstreeOpNames[op])
			sb.nameClasses(comp, key, where)
			sb.nameClasses("fstree", key, where)
			nontrivial = nontrivial || where != inside
			fmt.Fprintf(&fp, "|%d:%s", op, key)
		}
		stats.Case(fp.String(), nontrivial)
		if stats.WantSample("fstree") {
			stats.Sample("fstree", map[string]any{"root": sb.rel(sb.root), "ops": fp.String()})
		}
	})
}

var perms = []os.FileMode{0o755, 0o700, 0o777}

func TestPropDirStructure(t *testing.T) {
	rapid.Check(t, func(t *rapid.T) {
		sb := drawSandbox(t, false)
		defer sb.remove()
		c := newChecker(t, sb)
		n := rapid.IntRange(1, 6).Draw(t, "nops")
		var fp strings.Builder
		fmt.Fprintf(&fp, "ds:%s:%d", sb.rootName, sb.depth)
		nontrivial := false
		for i := 0; i < n; i++ {
			op := rapid.IntRange(0, numDsOps-1).Draw(t, "op")
			perm := rapid.SampledFrom(perms).Draw(t, "perm")
			var arg string
			if op == dsAbs {
				arg = genAbsPath(t, sb)
			} else {
				arg = genRelName(t, sb)
			}
			where := c.dirStructureOp(op, arg, perm)
			shown := strings.ReplaceAll(arg, sb.top, "<top>")
			sb.nameClasses("dirstructure", shown, where)
			stats.Class("dirstructure_" + dsOpNames[op] + "_" + where.String())
			nontrivial = nontrivial || where == escaping
			fmt.Fprintf(&fp, "|%d:%o:%s", op, perm, shown)
		}
		stats.Case(fp.String(), nontrivial)
		if stats.WantSample("dirstructure") {
			stats.Sample("dirstructure", map[string]any{"root": sb.rel(sb.root), "ops": fp.String()})
		}
	})
}

func TestPropScanStorage(t *testing.T) {
	rapid.Check(t, func(t *rapid.T) {
		sb := drawSandbox(t, false)
		defer sb.remove()
		// more versioned files inside the storage dir
		mustWrite(t, filepath.Join(sb.root, "a", "x_v2-0-0"), []byte(insideMarker))
		mustWrite(t, filepath.Join(sb.root, sb.rootName+"-other", "y_v0-1-0.zip"), []byte(insideMarker))
		n := rapid.IntRange(1, 3).Draw(t, "nscans")
		var fp strings.Builder
		fmt.Fprintf(&fp, "scan:%s:%d", sb.rootName, sb.depth)
		nontrivial := false
		for i := 0; i < n; i++ {
			reg := newRegistry(t, sb)
			c := newChecker(t, sb)
			arg := genAbsPath(t, sb)
			if rapid.IntRange(0, 3).Draw(t, "relative") == 0 {
				// relative scan roots, with and without parent references
				arg = rapid.SampledFrom([]string{
					"../" + sb.rootName + "-other", "..", "../..", "a/../../" + sb.rootName + "2", "./../" + sb.rootName + "-other/", "..//" + sb.rootName + "2",
					"../" + sb.rootName, "a", "./a", "a/..", sb.rootName + "-other", "../" + sb.rootName + "/a",
				}).Draw(t, "relroot")
				stats.Class("scanstorage_relative_root")
			}
			where := c.scanOp(reg, arg)
			shown := strings.ReplaceAll(arg, sb.top, "<top>")
			sb.nameClasses("scanstorage", shown, where)
			if where != escaping && len(reg.Export()) > 0 {
				stats.Class("scanstorage_found_resources")
			}
			nontrivial = nontrivial || where == escaping
			fmt.Fprintf(&fp, "|%s", shown)
		}
		stats.Case(fp.String(), nontrivial)
		if stats.WantSample("scanstorage") {
			stats.Sample("scanstorage", map[string]any{"storage": sb.rel(sb.root), "roots": fp.String()})
		}
	})
}

func TestPropUnpackZip(t *testing.T) {
	rapid.Check(t, func(t *rapid.T) {
		sb := drawSandbox(t, false)
		defer sb.remove()
		n := rapid.IntRange(1, 4).Draw(t, "nentries")
		var entries []zipEntry
		for i := 0; i < n; i++ {
			var name string
			switch k := rapid.IntRange(0, 9).Draw(t, "entryKind"); {
			case k <= 2:
				name = rapid.SampledFrom([]string{"a", "a/f", "b", "sub", "sub/x_v2-0-0", "in"}).Draw(t, "plainName")
			case k == 3 && len(entries) > 0:
				// a file below an earlier entry, which becomes a directory entry
				prev := &entries[rapid.IntRange(0, len(entries)-1).Draw(t, "parentEntry")]
				prev.Dir = true
				name = strings.TrimSuffix(prev.Name, "/") + "/" + rapid.SampledFrom([]string{"f", "canary", "x_v2-0-0"}).Draw(t, "childName")
			case k == 4:
				// siblings of the extraction directory that share its name as a prefix
				up := rapid.SampledFrom([]string{"..", "a/../..", "./.."}).Draw(t, "up")
				name = up + "/" + extractionDirName + rapid.SampledFrom([]string{"-other", "2", "", "/in"}).Draw(t, "ext")
			default:
				name = genRelName(t, sb)
			}
			dir := rapid.IntRange(0, 3).Draw(t, "dirEntry") == 0
			entries = append(entries, zipEntry{Name: name, Dir: dir})
		}
		escapes := unpackOp(t, sb, entries)
		_, tmpDir, _ := zipPaths(sb.root)
		for _, e := range entries {
			sb.nameClasses("unpack_entry", e.Name, locate(tmpDir, filepath.Join(tmpDir, e.Name)))
		}
		if escapes {
			stats.Class("unpack_archive_escaping")
		} else {
			stats.Class("unpack_archive_contained")
			if _, _, dest := zipPaths(sb.root); dirExists(dest) {
				stats.Class("unpack_archive_contained_and_unpacked")
			}
		}
		fp := fmt.Sprintf("zip:%s:%d:%+v", sb.rootName, sb.depth, entries)
		stats.Case(fp, escapes)
		if stats.WantSample("unpack") {
			stats.Sample("unpack", map[string]any{"storage": sb.rel(sb.root), "entries": entries})
		}
	})
}

func dirExists(p string) bool {
	fi, err := os.Stat(p)
	return err == nil && fi.IsDir()
}

// ---------------------------------------------------------------- exhaustive

// exhaustiveAlphabet is the reduced segment set that is enumerated completely.
func exhaustiveAlphabet(rootName string) []string {
	return []string{".", "..", "", "a", "canary", rootName, rootName + "-other", rootName + "2"}
}

// enumerate calls f with every sequence of 1..maxLen segments.
func enumerate(alpha []string, maxLen int, f func(segs []string)) {
	var rec func(prefix []string)
	rec = func(prefix []string) {
		if len(prefix) > 0 {
			f(prefix)
		}
		if len(prefix) == maxLen {
			return
		}
		for _, s := range alpha {
			rec(append(prefix, s))
		}
	}
	rec(nil)
}

func exhaustiveLen() int {
	if stats.Thorough() {
		return 4
	}
	return 3
}

// TestExhaustiveNames runs every name of up to 3 (thorough: 4) segments of the
// reduced alphabet, with and without a trailing separator, against roots at
// depth 1..3 through every fstree operation, the relative DirStructure calls,
// EnsureAbsPath (root + "/" + name, unclean) and ScanStorage (same path).
func TestExhaustiveNames(t *testing.T) {
	const rootName = "fstree"
	var total, nontrivial atomic.Int64
	t.Run("depth", func(t *testing.T) {
		for depth := 1; depth <= 3; depth++ {
			depth := depth
			t.Run(fmt.Sprint(depth), func(t *testing.T) {
				t.Parallel()
				tot, non := exhaustiveNamesAtDepth(t, rootName, depth)
				total.Add(tot)
				nontrivial.Add(non)
			})
		}
	})
	stats.CaseN(total.Load(), nontrivial.Load(), "exhaustive_names")
	stats.Exhaustive(fmt.Sprintf("all names of <=%d segments over {., .., empty, a, canary, <root>, <root>-other, <root>2} (with/without trailing separator) x root depth 1-3 x fstree Put/Get/GetMeta/Delete/Query, EnsureRelPath/RelDir/ChildDir/AbsPath, ScanStorage", exhaustiveLen()))
}

func exhaustiveNamesAtDepth(t *testing.T, rootName string, depth int) (total, nontrivial int64) {
	var sb *sandbox
	var c *checker
	used := 0
	fresh := func() {
		if sb != nil {
			sb.remove()
		}
		sb = newSandbox(t, rootName, depth, false)
		c = newChecker(t, sb)
		used = 0
	}
	fresh()
	defer func() { sb.remove() }()
	enumerate(exhaustiveAlphabet(rootName), exhaustiveLen(), func(segs []string) {
		for _, trailing := range []string{"", "/"} {
			name := strings.Join(segs, "/") + trailing
			if used >= 40 {
				fresh() // keep the root small: what accumulates inside is legal but slows the snapshots
			}
			used++
			st := openFstree(t, sb)
			var where place
			for op := 0; op < numFstreeOps; op++ {
				where = c.fstreeOp(st, op, name)
				total++
			}
			for _, op := range []int{dsRelPath, dsRelDir, dsChild} {
				c.dirStructureOp(op, name, 0o755)
				total++
			}
			abs := sb.root + "/" + name
			c.dirStructureOp(dsAbs, abs, 0o755)
			reg := newRegistry(t, sb)
			c.last = takeSnapshot(t, sb.top) // Initialize may (re)create <root>/tmp
			c.scanOp(reg, abs)
			total += 2
			if where != inside {
				nontrivial++
			}
		}
	})
	return
}

// TestExhaustiveZipEntries unpacks one archive per name: as a single file entry, as a directory
// entry, behind a harmless first entry, and as a directory entry followed by a file inside it.
// The alphabet contains the extraction directory's own name and names extending it.
func TestExhaustiveZipEntries(t *testing.T) {
	const rootName = "store"
	alpha := []string{".", "..", "", "a", "tmp", extractionDirName, extractionDirName + "-other", extractionDirName + "2"}
	var total, nontrivial atomic.Int64
	maxLen := exhaustiveLen()
	t.Run("depth", func(t *testing.T) {
		for depth := 1; depth <= 3; depth += 2 {
			depth := depth
			t.Run(fmt.Sprint(depth), func(t *testing.T) {
				t.Parallel()
				exhaustiveZipAtDepth(t, rootName, alpha, maxLen, depth, &total, &nontrivial)
			})
		}
	})
	stats.CaseN(total.Load(), nontrivial.Load(), "exhaustive_zip_entries")
	stats.Exhaustive(fmt.Sprintf("zip archives with one generated entry name of <=%d segments over {., .., empty, a, tmp, <extraction dir>, <extraction dir>-other, <extraction dir>2} (file, directory, after a harmless entry, directory + file inside) x storage depth 1 and 3", maxLen))
}

func exhaustiveZipAtDepth(t *testing.T, rootName string, alpha []string, maxLen, depth int, total, nontrivial *atomic.Int64) {
	enumerate(alpha, maxLen, func(segs []string) {
		name := strings.Join(segs, "/")
		for variant := 0; variant < 4; variant++ {
			if variant%3 != 0 && len(segs) == maxLen && !stats.Thorough() {
				continue // the longest names only as file and as directory+file in the quick tier
			}
			var entries []zipEntry
			switch variant {
			case 0:
				entries = []zipEntry{{Name: name}}
			case 1:
				entries = []zipEntry{{Name: name, Dir: true}}
			case 2:
				entries = []zipEntry{{Name: "ok"}, {Name: name}}
			default:
				entries = []zipEntry{{Name: name, Dir: true}, {Name: name + "/f"}}
			}
			func() {
				sb := newSandbox(t, rootName, depth, false)
				defer sb.remove() // also when a check fails
				if unpackOp(t, sb, entries) {
					nontrivial.Add(1)
				}
			}()
			total.Add(1)
		}
	})
}
