package c18

import (
	"archive/zip"
	"bytes"
	"fmt"
	"os"
	"path/filepath"
	"strings"

	"github.com/safing/portbase/database/query"
	"github.com/safing/portbase/database/record"
	"github.com/safing/portbase/database/storage"
	"github.com/safing/portbase/database/storage/fstree"
	"github.com/safing/portbase/formats/dsd"
	"github.com/safing/portbase/updater"
	"github.com/safing/portbase/utils"
)

// guard converts a panic inside the component into a failure that names the input.
func guard(t fataler, what string, f func()) {
	defer func() {
		if r := recover(); r != nil {
			t.Fatalf("%s panicked: %v", what, r)
		}
	}()
	f()
}

// checker carries the sandbox and the last snapshot through a sequence of operations.
type checker struct {
	t     fataler
	sb    *sandbox
	last  snapshot
	scope string // the directory the name must stay inside (for messages); default: the sandbox root
}

func newChecker(t fataler, sb *sandbox) *checker {
	return &checker{t: t, sb: sb, last: takeSnapshot(t, sb.top)}
}

// settle compares the sandbox with the last snapshot. mustBeUntouched demands an
// identical sandbox; otherwise only paths accepted by skip may differ.
func (c *checker) settle(what string, mustBeUntouched bool, skip func(string) bool) {
	now := takeSnapshot(c.t, c.sb.top, c.last)
	if mustBeUntouched {
		skip = nil
	}
	if d := c.sb.diff(c.last, now, skip); len(d) > 0 {
		scope := c.scope
		if scope == "" {
			scope = c.sb.root
		}
		if mustBeUntouched {
			c.t.Fatalf("%s: the name escapes %s, yet the sandbox changed: %s", what, c.sb.rel(scope), strings.Join(d, "; "))
		}
		c.t.Fatalf("%s: files outside %s changed: %s", what, c.sb.rel(scope), strings.Join(d, "; "))
	}
	c.last = now
}

// ---------------------------------------------------------------- fstree

const (
	opPut = iota
	opGet
	opGetMeta
	opDelete
	opQuery
	numFstreeOps
)

var fstreeOpNames = [...]string{"Put", "Get", "GetMeta", "Delete", "Query"}

func openFstree(t fataler, sb *sandbox) storage.Interface {
	st, err := fstree.NewFSTree("db", sb.root)
	if err != nil {
		t.Fatalf("harness: NewFSTree(%s): %v", sb.root, err)
	}
	return st
}

func fstreeMustReject(where place, op int) bool {
	return where == escaping || (where == atRoot && op != opQuery)
}

// fstreeOp runs one storage operation with the given key (or query prefix) and checks it.
func (c *checker) fstreeOp(st storage.Interface, op int, key string) place {
	sb := c.sb
	where := locate(sb.root, filepath.Join(sb.root, key))
	what := fmt.Sprintf("fstree(root=%s).%s(%q)", sb.rel(sb.root), fstreeOpNames[op], key)

	// A record key names a file strictly below the root: the root directory
	// itself is not inside "root + separator". A query prefix that resolves to
	// the root selects everything and is fine.
	mustReject := fstreeMustReject(where, op)

	var err error
	var got []record.Record
	guard(c.t, what, func() {
		switch op {
		case opPut:
			var w *record.Wrapper
			w, err = record.NewWrapper("db:"+key, nil, dsd.RAW, []byte("PUT-PAYLOAD"))
			if err != nil {
				c.t.Fatalf("harness: NewWrapper: %v", err)
			}
			w.UpdateMeta()
			if w.DatabaseKey() != key {
				c.t.Fatalf("harness: key %q became %q", key, w.DatabaseKey())
			}
			_, err = st.Put(w)
		case opGet:
			var r record.Record
			r, err = st.Get(key)
			if r != nil {
				got = append(got, r)
			}
		case opGetMeta:
			var m *record.Meta
			m, err = st.(storage.MetaHandler).GetMeta(key)
			if mustReject && m != nil {
				c.t.Fatalf("%s returned metadata although the key escapes the root", what)
			}
		case opDelete:
			err = st.Delete(key)
		case opQuery:
			q := query.New("db:" + key)
			if q.DatabaseKeyPrefix() != key {
				c.t.Fatalf("harness: prefix %q became %q", key, q.DatabaseKeyPrefix())
			}
			it, qerr := st.Query(q, true, true)
			err = qerr
			if it != nil {
				for r := range it.Next {
					got = append(got, r)
				}
			}
		}
	})

	if mustReject && err == nil {
		c.t.Fatalf("%s returned no error although the cleaned path %s is not below the root (%s)", what, sb.rel(filepath.Join(sb.root, key)), where)
	}
	for _, r := range got {
		if mustReject {
			c.t.Fatalf("%s returned record %q although the name escapes the root", what, r.DatabaseKey())
		}
		if w, ok := r.(*record.Wrapper); ok && hasCanary(w.Data) {
			c.t.Fatalf("%s returned canary content from outside the root (record key %q)", what, r.DatabaseKey())
		}
		if locate(sb.root, filepath.Join(sb.root, r.DatabaseKey())) != inside {
			c.t.Fatalf("%s returned record with key %q which lies outside the root", what, r.DatabaseKey())
		}
	}
	c.settle(what, mustReject, sb.strictlyUnderRoot)
	return where
}

// ---------------------------------------------------------------- DirStructure

const (
	dsAbs = iota
	dsRelPath
	dsRelDir
	dsChild
	dsChildRel
	numDsOps
)

var dsOpNames = [...]string{"EnsureAbsPath", "EnsureRelPath", "EnsureRelDir", "ChildDir.Ensure", "ChildDir(in).EnsureRelPath"}

// dsTarget is the path a DirStructure call asks for (before cleaning).
func dsTarget(root string, op int, arg string) string {
	switch op {
	case dsAbs:
		return arg
	case dsRelDir:
		return filepath.Join(append([]string{root}, strings.Split(arg, "/")...)...)
	case dsChildRel:
		return filepath.Join(root, "in", arg)
	default:
		return filepath.Join(root, arg)
	}
}

// dsCall performs the DirStructure call on a fresh structure rooted at root.
func dsCall(root string, op int, arg string, perm os.FileMode) error {
	ds := utils.NewDirStructure(root, perm)
	switch op {
	case dsAbs:
		return ds.EnsureAbsPath(arg)
	case dsRelPath:
		return ds.EnsureRelPath(arg)
	case dsRelDir:
		return ds.EnsureRelDir(strings.Split(arg, "/")...)
	case dsChild:
		return ds.ChildDir(arg, perm).Ensure()
	default:
		return ds.ChildDir("in", perm).EnsureRelPath(arg)
	}
}

// dirStructureOp runs one DirStructure call. For dsAbs arg is an absolute path, otherwise a relative name.
func (c *checker) dirStructureOp(op int, arg string, perm os.FileMode) place {
	sb := c.sb
	var err error
	what := fmt.Sprintf("DirStructure(root=%s,perm=%o).%s(%q)", sb.rel(sb.root), perm, dsOpNames[op], strings.ReplaceAll(arg, sb.top, "<top>"))
	target := dsTarget(sb.root, op, arg)
	guard(c.t, what, func() { err = dsCall(sb.root, op, arg, perm) })
	where := locate(sb.root, target)
	if where == escaping && err == nil {
		c.t.Fatalf("%s returned no error although the cleaned path %s is outside the root", what, sb.rel(filepath.Clean(target)))
	}
	// The root itself belongs to the structure: its mode may be enforced.
	c.settle(what, where == escaping, sb.underRoot)
	return where
}

// ---------------------------------------------------------------- ScanStorage

func newRegistry(t fataler, sb *sandbox) *updater.ResourceRegistry {
	reg := &updater.ResourceRegistry{Name: "c18"}
	if err := reg.Initialize(utils.NewDirStructure(sb.root, 0o755)); err != nil {
		t.Fatalf("harness: registry.Initialize(%s): %v", sb.root, err)
	}
	return reg
}

// scanOp runs ScanStorage(absRoot) on a fresh registry whose storage dir is the sandbox root.
// The checker's snapshot must have been taken after the registry was initialized.
func (c *checker) scanOp(reg *updater.ResourceRegistry, absRoot string) place {
	sb := c.sb
	what := fmt.Sprintf("ResourceRegistry(storage=%s).ScanStorage(%q)", sb.rel(sb.root), strings.ReplaceAll(absRoot, sb.top, "<top>"))
	where := locate(sb.root, absRoot)
	if !filepath.IsAbs(absRoot) {
		// a relative scan root: whether it is taken relative to the working directory (as the code does) or to the
		// storage dir, it has to be refused when it escapes either way; otherwise both outcomes are fine
		abs, aerr := filepath.Abs(absRoot)
		if aerr != nil {
			c.t.Fatalf("harness: %v", aerr)
		}
		where = locate(sb.root, filepath.Join(sb.root, absRoot))
		if w := locate(sb.root, abs); where == escaping && w != escaping {
			where = w
		}
	}
	var err error
	guard(c.t, what, func() { err = reg.ScanStorage(absRoot) })
	if where == escaping && err == nil {
		c.t.Fatalf("%s returned no error although the scan root is outside the storage dir", what)
	}
	for id, res := range reg.Export() {
		for _, rv := range res.Versions {
			p := filepath.Join(sb.root, filepath.FromSlash(updater.GetVersionedPath(id, rv.VersionNumber)))
			if where == escaping {
				c.t.Fatalf("%s registered resource %q v%s although the scan root is outside the storage dir", what, id, rv.VersionNumber)
			}
			if locate(sb.root, p) != inside {
				c.t.Fatalf("%s registered resource %q v%s whose file %s lies outside the storage dir", what, id, rv.VersionNumber, sb.rel(p))
			}
		}
	}
	c.settle(what, where == escaping, sb.underRoot)
	return where
}

// ---------------------------------------------------------------- zip unpacking

type zipEntry struct {
	Name string
	Dir  bool
}

const (
	zipIdentifier = "pkg/archive.zip"
	zipVersion    = "1.0.0"
	// extractionDirName is the directory below <storage>/tmp the archive is extracted into.
	extractionDirName = "archive_v1-0-0"
)

func buildZip(t fataler, entries []zipEntry) []byte {
	var buf bytes.Buffer
	w := zip.NewWriter(&buf)
	for i, e := range entries {
		h := &zip.FileHeader{Name: e.Name, Method: zip.Deflate}
		// in the zip format a name with a trailing slash is a directory entry
		isDir := e.Dir || strings.HasSuffix(e.Name, "/")
		if isDir {
			if !strings.HasSuffix(h.Name, "/") {
				h.Name += "/"
			}
			h.SetMode(0o755 | os.ModeDir)
		} else {
			h.SetMode(0o644)
		}
		fw, err := w.CreateHeader(h)
		if err != nil {
			t.Fatalf("harness: zip entry %q: %v", e.Name, err)
		}
		if !isDir {
			if _, err := fmt.Fprintf(fw, "UNPACKED-%d", i); err != nil {
				t.Fatalf("harness: zip write: %v", err)
			}
		}
	}
	if err := w.Close(); err != nil {
		t.Fatalf("harness: zip close: %v", err)
	}
	return buf.Bytes()
}

// zipPaths returns the archive file, the extraction dir and the final destination below the storage dir.
func zipPaths(storageDir string) (archive, tmpDir, destDir string) {
	versioned := updater.GetVersionedPath(zipIdentifier, zipVersion) // pkg/archive_v1-0-0.zip
	archive = filepath.Join(storageDir, filepath.FromSlash(versioned))
	destDir = strings.TrimSuffix(archive, ".zip")
	tmpDir = filepath.Join(storageDir, "tmp", strings.TrimSuffix(filepath.Base(versioned), ".zip"))
	return
}

// unpackOp stores an archive with the given entries as a resource of a fresh registry and unpacks it.
// It returns whether any entry escapes the extraction directory.
func unpackOp(t fataler, sb *sandbox, entries []zipEntry) bool {
	archive, tmpDir, destDir := zipPaths(sb.root)
	mustWrite(t, archive, buildZip(t, entries))

	reg := newRegistry(t, sb)
	reg.AutoUnpack = []string{zipIdentifier}
	if err := reg.AddResource(zipIdentifier, zipVersion, nil, true, false, false); err != nil {
		t.Fatalf("harness: AddResource: %v", err)
	}
	reg.SelectVersions()

	escapes := false
	var names []string
	for _, e := range entries {
		names = append(names, e.Name)
		// Entries are extracted below the extraction directory and moved to the
		// destination as a whole: the extraction directory is the root an entry
		// name must not leave (the directory itself is not a place for an entry,
		// but the attempt fails harmlessly: not asserted).
		if locate(tmpDir, filepath.Join(tmpDir, filepath.FromSlash(e.Name))) == escaping {
			escapes = true
		}
	}
	what := fmt.Sprintf("UnpackResources(storage=%s, zip entries %q)", sb.rel(sb.root), names)

	c := newChecker(t, sb)
	c.scope = tmpDir
	var err error
	guard(t, what, func() { err = reg.UnpackResources() })
	if escapes && err == nil {
		t.Fatalf("%s returned no error although an entry name leaves the extraction directory", what)
	}
	c.settle(what, escapes, func(p string) bool {
		// a well-formed archive may create the destination; the tmp dir is the registry's scratch space
		return p == destDir || strings.HasPrefix(p, destDir+sep) || p == tmpDir || strings.HasPrefix(p, tmpDir+sep)
	})
	if !escapes && err == nil {
		// everything that was unpacked lies below the destination
		if fi, serr := os.Stat(destDir); serr != nil || !fi.IsDir() {
			t.Fatalf("%s succeeded but the destination %s does not exist", what, sb.rel(destDir))
		}
	}
	return escapes
}
