package c18

import (
	"os"
	"path/filepath"
	"testing"
)

// Regression tests: minimal inputs of the findings that were repaired (see known-findings.part).

func regSandbox(t *testing.T, depth int, empty bool) *sandbox {
	sb := newSandbox(t, "fstree", depth, empty)
	t.Cleanup(sb.remove)
	return sb
}

// fstree compared the cleaned path with the base path without a separator.
func TestRegFstreeSiblingPrefix(t *testing.T) {
	for depth := 1; depth <= 3; depth++ {
		sb := regSandbox(t, depth, false)
		st := openFstree(t, sb)
		c := newChecker(t, sb)
		for op := 0; op < numFstreeOps; op++ {
			for _, key := range []string{"../fstree-other/evil", "../fstree-other/canary", "../fstree2/canary", "../fstree-other", "../fstree2/sub/", "a/../../fstree-other/sub/canary_v1-2-3"} {
				if where := c.fstreeOp(st, op, key); where != escaping {
					t.Fatalf("harness: %q should be escaping", key)
				}
			}
		}
	}
}

// A record key that resolves to the base path itself: Delete(".") removed the empty database directory.
func TestRegFstreeKeyIsRoot(t *testing.T) {
	for _, empty := range []bool{true, false} {
		for _, key := range []string{".", "./", "a/..", "in/../.", "../fstree"} {
			sb := regSandbox(t, 2, empty)
			st := openFstree(t, sb)
			c := newChecker(t, sb)
			for _, op := range []int{opDelete, opPut, opGet, opGetMeta} {
				if where := c.fstreeOp(st, op, key); where != atRoot {
					t.Fatalf("harness: %q should resolve to the root", key)
				}
			}
			if _, err := os.Stat(sb.root); err != nil {
				t.Fatalf("database directory is gone after Delete(%q): %v", key, err)
			}
			// the root as query prefix remains valid
			c.fstreeOp(st, opQuery, key)
		}
	}
}

// ScanStorage compared the scan root with the storage dir without a separator.
func TestRegScanStorageSibling(t *testing.T) {
	for depth := 1; depth <= 3; depth++ {
		sb := regSandbox(t, depth, false)
		for _, root := range []string{sb.root + "-other", sb.root + "2", sb.root + "-other/sub", sb.root + "/../fstree-other", sb.root + "2/"} {
			reg := newRegistry(t, sb)
			c := newChecker(t, sb)
			if where := c.scanOp(reg, root); where != escaping {
				t.Fatalf("harness: %q should be escaping", root)
			}
		}
	}
}

// Zip entry names were joined below the extraction directory without any check.
func TestRegUnpackZipEntryEscapes(t *testing.T) {
	for _, entries := range [][]zipEntry{
		{{Name: "../evil"}},
		{{Name: "../../evil_v9-9-9"}},
		{{Name: "../../pkg/res_v1-0-0"}},
		{{Name: "ok"}, {Name: "../../../fstree-other/canary"}},
		{{Name: "../archive_v1-0-0-other/x"}},
		{{Name: "../archive_v1-0-0-other", Dir: true}, {Name: "../archive_v1-0-0-other/x"}},
		{{Name: "../archive_v1-0-02", Dir: true}},
		{{Name: "../../../evil", Dir: true}},
		{{Name: "a/../../evil"}},
	} {
		sb := regSandbox(t, 2, false)
		if !unpackOp(t, sb, entries) {
			t.Fatalf("harness: %v should be escaping", entries)
		}
	}
	// and a harmless archive is still unpacked
	sb := regSandbox(t, 2, false)
	if unpackOp(t, sb, []zipEntry{{Name: "d", Dir: true}, {Name: "d/f"}, {Name: "g"}}) {
		t.Fatalf("harness: harmless archive classified as escaping")
	}
	_, _, dest := zipPaths(sb.root)
	if data, err := os.ReadFile(filepath.Join(dest, "d", "f")); err != nil || string(data) != "UNPACKED-1" {
		t.Fatalf("harmless archive was not unpacked: %q, %v", data, err)
	}
}

// EnsureAbsPath checked the scope on the uncleaned path.
func TestRegEnsureAbsPathUnclean(t *testing.T) {
	for depth := 1; depth <= 3; depth++ {
		for _, perm := range perms {
			sb := regSandbox(t, depth, false)
			c := newChecker(t, sb)
			for _, p := range []string{
				sb.root + "/x/../../y",
				sb.root + "/..",
				sb.root + "/././..",
				sb.root + "/../fstree-other/new",
				sb.root + "/in/../../fstree2",
			} {
				if where := c.dirStructureOp(dsAbs, p, perm); where != escaping {
					t.Fatalf("harness: %q should be escaping", p)
				}
			}
			// uncleaned paths that stay inside are still served
			c.dirStructureOp(dsAbs, sb.root+"/a/../b/./c", perm)
			if !dirExists(filepath.Join(sb.root, "b", "c")) {
				t.Fatalf("EnsureAbsPath(<root>/a/../b/./c) did not create <root>/b/c")
			}
		}
	}
}
