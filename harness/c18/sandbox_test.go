// Package c18 decides C18: externally supplied names (fstree keys and query
// prefixes, zip entry names, DirStructure paths, ScanStorage roots) never reach
// files outside the component's root directory.
//
// Every case builds a sandbox directory under /dev/shm that contains the
// component's root at depth 1..3 and, next to it and next to each of its
// ancestors, sibling directories whose names extend the root's name
// ("<root>-other", "<root>2") with canary files that are valid inputs for the
// component (a serialized record that is at the same time a versioned resource
// file). A snapshot (names, modes, sizes, hashes, link targets) of the whole
// sandbox is taken before and after every operation.
package c18

import (
	"bytes"
	"crypto/sha256"
	"fmt"
	"io/fs"
	"os"
	"path/filepath"
	"sort"
	"strings"
	"syscall"

	"github.com/safing/portbase/database/record"
	"github.com/safing/portbase/formats/dsd"
)

type fataler interface {
	Fatalf(format string, args ...any)
}

const (
	sep          = string(filepath.Separator)
	canaryMarker = "CANARY-OUTSIDE-ROOT"
	insideMarker = "INSIDE-ROOT"
	// guardLevels directories lie between the directory that is snapshotted
	// and the level the root's ancestors start at: generated names contain at
	// most maxDotDot parent references, so that even a component without any
	// containment check cannot leave the snapshotted tree.
	guardLevels = 8
	maxDotDot   = 6
)

// sandbox describes one generated directory layout.
type sandbox struct {
	top      string   // snapshotted directory (os.MkdirTemp)
	base     string   // top + guard levels
	root     string   // the component's root
	rootName string   // last element of root
	depth    int      // 1..3: number of path elements between base and root (inclusive root)
	levels   []string // names of the root's ancestors below base
	canaries []string // absolute paths of all canary files (all outside root)
	outDirs  []string // absolute paths of directories outside root that exist
}

// serializedRecord returns a valid stored record (as fstree stores it) with the given payload.
func serializedRecord(t fataler, key, payload string) []byte {
	w, err := record.NewWrapper("db:"+key, nil, dsd.RAW, []byte(payload))
	if err != nil {
		t.Fatalf("harness: NewWrapper: %v", err)
	}
	w.UpdateMeta()
	data, err := w.MarshalRecord(w)
	if err != nil {
		t.Fatalf("harness: MarshalRecord: %v", err)
	}
	return data
}

func mustMkdir(t fataler, p string) {
	if err := os.MkdirAll(p, 0o755); err != nil {
		t.Fatalf("harness: mkdir %s: %v", p, err)
	}
}

func mustWrite(t fataler, p string, data []byte) {
	mustMkdir(t, filepath.Dir(p))
	if err := os.WriteFile(p, data, 0o644); err != nil {
		t.Fatalf("harness: write %s: %v", p, err)
	}
}

// canaryFiles are created in every directory outside the root. Each is a
// serialized record (valid for fstree) and two of them carry a versioned
// resource file name (valid for the updater's storage scan).
var canaryFiles = []string{"canary", "canary_v1-2-3", "sub/canary_v1-2-3"}

func (sb *sandbox) populateOutside(t fataler, dir string) {
	mustMkdir(t, dir)
	sb.outDirs = append(sb.outDirs, dir)
	for _, f := range canaryFiles {
		p := filepath.Join(dir, filepath.FromSlash(f))
		mustWrite(t, p, serializedRecord(t, "canary", canaryMarker+":"+f))
		sb.canaries = append(sb.canaries, p)
	}
	sb.outDirs = append(sb.outDirs, filepath.Join(dir, "sub"))
}

// newSandbox builds the layout. emptyRoot leaves the root directory empty.
func newSandbox(t fataler, rootName string, depth int, emptyRoot bool) *sandbox {
	top, err := os.MkdirTemp("/dev/shm", "c18-")
	if err != nil {
		t.Fatalf("harness: MkdirTemp: %v", err)
	}
	sb := &sandbox{top: top, rootName: rootName, depth: depth}
	cur := top
	for i := 0; i < guardLevels; i++ {
		cur = filepath.Join(cur, "g")
	}
	sb.base = cur
	mustMkdir(t, cur)
	for i := 1; i < depth; i++ {
		// a directory with a name extending the root's name next to every ancestor
		sb.populateOutside(t, filepath.Join(cur, rootName+"-other"))
		lvl := fmt.Sprintf("lvl%d", i)
		sb.levels = append(sb.levels, lvl)
		cur = filepath.Join(cur, lvl)
		mustMkdir(t, cur)
	}
	// the root's parent directory: siblings sharing the root's name as a prefix
	sb.populateOutside(t, filepath.Join(cur, rootName+"-other"))
	sb.populateOutside(t, filepath.Join(cur, rootName+"2"))
	sb.populateOutside(t, filepath.Join(cur, "other"))
	for _, f := range canaryFiles[:2] {
		p := filepath.Join(cur, f)
		mustWrite(t, p, serializedRecord(t, "canary", canaryMarker+":parent/"+f))
		sb.canaries = append(sb.canaries, p)
	}
	sb.root = filepath.Join(cur, rootName)
	mustMkdir(t, sb.root)
	if !emptyRoot {
		mustWrite(t, filepath.Join(sb.root, "rec"), serializedRecord(t, "rec", insideMarker+":rec"))
		mustWrite(t, filepath.Join(sb.root, "in", "rec"), serializedRecord(t, "in/rec", insideMarker+":in/rec"))
		mustWrite(t, filepath.Join(sb.root, "pkg", "res_v1-0-0"), serializedRecord(t, "pkg/res", insideMarker+":pkg/res_v1-0-0"))
	}
	return sb
}

func (sb *sandbox) remove() { _ = os.RemoveAll(sb.top) }

// rel renders an absolute sandbox path independent of the random top name.
func (sb *sandbox) rel(p string) string {
	if p == sb.top {
		return "<top>"
	}
	if strings.HasPrefix(p, sb.top+sep) {
		return "<top>" + p[len(sb.top):]
	}
	return p
}

// ---------------------------------------------------------------- containment oracle

type place int

const (
	inside   place = iota // strictly below the root
	atRoot                // the root directory itself
	escaping              // anything else
)

func (p place) String() string { return [...]string{"inside", "root", "escaping"}[p] }

// locate is the lexical containment oracle: where does the (already joined)
// path lie relative to root once it is cleaned.
func locate(root, full string) place {
	c := filepath.Clean(full)
	switch {
	case c == root:
		return atRoot
	case strings.HasPrefix(c, root+sep):
		return inside
	default:
		return escaping
	}
}

// ---------------------------------------------------------------- snapshots

type entry struct {
	mode fs.FileMode
	size int64
	sum  [sha256.Size]byte
	link string
	// identity of the file state; a file whose inode, size and change time are
	// those of the previous snapshot has the previous content (every write
	// updates the change time, which cannot be set by a program).
	ino   uint64
	ctime int64
}

type snapshot map[string]entry

// takeSnapshot records names, modes, sizes, content hashes and link targets of
// everything below top. prev (may be nil) is used to avoid re-reading files
// whose inode, size and change time are unchanged.
func takeSnapshot(t fataler, top string, prev ...snapshot) snapshot {
	var old snapshot
	if len(prev) > 0 {
		old = prev[0]
	}
	s := snapshot{}
	err := filepath.Walk(top, func(p string, info fs.FileInfo, err error) error {
		if err != nil {
			return err
		}
		e := entry{mode: info.Mode()}
		if st, ok := info.Sys().(*syscall.Stat_t); ok {
			e.ino = st.Ino
			e.ctime = st.Ctim.Nano()
		}
		switch {
		case info.Mode()&fs.ModeSymlink != 0:
			e.link, _ = os.Readlink(p)
		case info.Mode().IsRegular():
			e.size = info.Size()
			if o, ok := old[p]; ok && o.ino == e.ino && o.ctime == e.ctime && o.size == e.size && o.mode == e.mode && e.ino != 0 {
				e.sum = o.sum
				break
			}
			data, rerr := os.ReadFile(p)
			if rerr != nil {
				return rerr
			}
			e.sum = sha256.Sum256(data)
		}
		s[p] = e
		return nil
	})
	if err != nil {
		t.Fatalf("harness: snapshot of %s: %v", top, err)
	}
	return s
}

// diff lists the differences between two snapshots, ignoring paths for which skip returns true.
func (sb *sandbox) diff(a, b snapshot, skip func(p string) bool) []string {
	var out []string
	for p, ea := range a {
		if skip != nil && skip(p) {
			continue
		}
		eb, ok := b[p]
		switch {
		case !ok:
			out = append(out, "removed "+sb.rel(p))
		case ea.mode != eb.mode:
			out = append(out, fmt.Sprintf("mode of %s changed %v -> %v", sb.rel(p), ea.mode, eb.mode))
		case ea.size != eb.size || ea.sum != eb.sum || ea.link != eb.link:
			out = append(out, "content of "+sb.rel(p)+" changed")
		}
	}
	for p := range b {
		if skip != nil && skip(p) {
			continue
		}
		if _, ok := a[p]; !ok {
			out = append(out, "created "+sb.rel(p))
		}
	}
	sort.Strings(out)
	return out
}

// underRoot skips the root directory and everything below it.
func (sb *sandbox) underRoot(p string) bool {
	return p == sb.root || strings.HasPrefix(p, sb.root+sep)
}

// strictlyUnderRoot skips everything below the root but not the root's own entry.
func (sb *sandbox) strictlyUnderRoot(p string) bool {
	return strings.HasPrefix(p, sb.root+sep)
}

func hasCanary(data []byte) bool { return bytes.Contains(data, []byte(canaryMarker)) }
