package c18

// "Rejected with an error before any file-system access": a snapshot cannot see a
// pure read (stat, open for reading, directory listing). This file runs batches
// of names that must be rejected in a child process (this test binary, re-executed)
// under `strace -f -y -e trace=%file` and requires that, while a rejected call
// runs, no system call names a path that lies inside the sandbox but outside the
// component's root.

import (
	"encoding/json"
	"fmt"
	"os"
	"os/exec"
	"path/filepath"
	"regexp"
	"strconv"
	"strings"
	"testing"

	"github.com/safing/portbase/database/query"
	"github.com/safing/portbase/database/record"
	"github.com/safing/portbase/database/storage"
	"github.com/safing/portbase/formats/dsd"
	"pgregory.net/rapid"

	"verifharness/internal/stats"
)

const (
	traceChildEnv = "VERIF_C18_TRACE_CHILD"
	markerPrefix  = "/c18-trace-marker/"
)

type traceItem struct {
	Comp    string     `json:"comp"` // fstree | ds | scan | zip
	Op      int        `json:"op"`
	Arg     string     `json:"arg"`
	Perm    uint32     `json:"perm"`
	Entries []zipEntry `json:"entries,omitempty"`
}

type traceBatch struct {
	Root   string      `json:"root"`
	Items  []traceItem `json:"items"`
	Result string      `json:"result"` // file the child writes []bool (call returned an error) to
}

// ---------------------------------------------------------------- child

func marker(kind string, i int) {
	_, _ = os.Lstat(markerPrefix + kind + "/" + strconv.Itoa(i))
}

// traceChildMain runs the batch named by the environment variable. Everything
// an item needs is set up before its begin marker.
func traceChildMain() int {
	data, err := os.ReadFile(os.Getenv(traceChildEnv))
	if err != nil {
		fmt.Fprintln(os.Stderr, "trace child:", err)
		return 3
	}
	var b traceBatch
	if err := json.Unmarshal(data, &b); err != nil {
		fmt.Fprintln(os.Stderr, "trace child:", err)
		return 3
	}
	if err := os.Chdir("/"); err != nil {
		return 3
	}
	t := childFataler{}
	sb := &sandbox{root: b.Root, top: b.Root}
	results := make([]bool, len(b.Items))
	var st storage.Interface
	for i, it := range b.Items {
		var run func() error
		switch it.Comp {
		case "fstree":
			if st == nil {
				st = openFstree(t, sb)
			}
			run = func() error { return childFstree(st, it.Op, it.Arg) }
		case "ds":
			run = func() error { return dsCall(b.Root, it.Op, it.Arg, os.FileMode(it.Perm)) }
		case "scan":
			reg := newRegistry(t, sb)
			run = func() error { return reg.ScanStorage(it.Arg) }
		case "zip":
			reg := newRegistry(t, sb)
			reg.AutoUnpack = []string{zipIdentifier}
			if err := reg.AddResource(zipIdentifier, zipVersion, nil, true, false, false); err != nil {
				return 3
			}
			reg.SelectVersions()
			run = reg.UnpackResources
		default:
			return 3
		}
		marker("begin", i)
		err := run()
		marker("end", i)
		results[i] = err != nil
	}
	out, _ := json.Marshal(results)
	if err := os.WriteFile(b.Result, out, 0o644); err != nil {
		return 3
	}
	return 0
}

type childFataler struct{}

func (childFataler) Fatalf(format string, args ...any) {
	fmt.Fprintf(os.Stderr, "trace child: "+format+"\n", args...)
	os.Exit(3)
}

func childFstree(st storage.Interface, op int, key string) error {
	switch op {
	case opPut:
		w, err := record.NewWrapper("db:"+key, nil, dsd.RAW, []byte("PUT-PAYLOAD"))
		if err != nil {
			return nil
		}
		w.UpdateMeta()
		_, err = st.Put(w)
		return err
	case opGet:
		_, err := st.Get(key)
		return err
	case opGetMeta:
		_, err := st.(storage.MetaHandler).GetMeta(key)
		return err
	case opDelete:
		return st.Delete(key)
	default:
		it, err := st.Query(query.New("db:"+key), true, true)
		if it != nil {
			for range it.Next { //nolint:revive
			}
		}
		return err
	}
}

// ---------------------------------------------------------------- parent

var (
	quotedRe = regexp.MustCompile(`(?:(?:AT_FDCWD|\d+)<((?:[^>\\]|\\.)*)>, )?"((?:[^"\\]|\\.)*)"`)
	fdPathRe = regexp.MustCompile(`\d+<(/(?:[^>\\]|\\.)*)>`)
)

func unescape(s string) string {
	if !strings.Contains(s, `\`) {
		return s
	}
	if u, err := strconv.Unquote(`"` + s + `"`); err == nil {
		return u
	}
	return s
}

// pathsOfLine extracts every path a strace line names: quoted arguments
// (relative ones resolved against the annotated directory descriptor, else
// against "/", the child's working directory) and annotated descriptors.
func pathsOfLine(line string) []string {
	var out []string
	for _, m := range quotedRe.FindAllStringSubmatch(line, -1) {
		p := unescape(m[2])
		if p == "" {
			continue
		}
		if !strings.HasPrefix(p, "/") {
			base := "/"
			if m[1] != "" {
				base = unescape(m[1])
			}
			p = filepath.Join(base, p)
		}
		out = append(out, filepath.Clean(p))
	}
	for _, m := range fdPathRe.FindAllStringSubmatch(line, -1) {
		out = append(out, filepath.Clean(unescape(m[1])))
	}
	return out
}

// offending reports whether path p lies in the sandbox but outside root (ancestors of root excepted).
func (sb *sandbox) offending(p string) bool {
	if p != sb.top && !strings.HasPrefix(p, sb.top+sep) {
		return false
	}
	if p == sb.root || strings.HasPrefix(p, sb.root+sep) {
		return false
	}
	if strings.HasPrefix(sb.root, p+sep) {
		return false // an ancestor of the root
	}
	return true
}

// runTraced executes the batch in a traced child and returns, per item, the offending trace lines.
func runTraced(t fataler, sb *sandbox, items []traceItem) (errs []bool, offending map[int][]string, nlines int) {
	if _, err := exec.LookPath("strace"); err != nil {
		t.Fatalf("harness: strace not installed: %v", err)
	}
	dir, err := os.MkdirTemp("/dev/shm", "c18-trace-")
	if err != nil {
		t.Fatalf("harness: %v", err)
	}
	defer os.RemoveAll(dir)
	b := traceBatch{Root: sb.root, Items: items, Result: filepath.Join(dir, "result.json")}
	data, _ := json.Marshal(b)
	batchFile := filepath.Join(dir, "batch.json")
	if err := os.WriteFile(batchFile, data, 0o644); err != nil {
		t.Fatalf("harness: %v", err)
	}
	exe, err := os.Executable()
	if err != nil {
		t.Fatalf("harness: %v", err)
	}
	traceFile := filepath.Join(dir, "trace.txt")
	cmd := exec.Command("strace", "-f", "-qq", "-y", "-s", "8192", "-e", "trace=%file", "-o", traceFile, exe, "-test.run", "^$")
	cmd.Env = append(os.Environ(), traceChildEnv+"="+batchFile, "VERIF_STATS_OUT=")
	cmd.Dir = "/"
	if out, err := cmd.CombinedOutput(); err != nil {
		t.Fatalf("harness: traced child failed: %v\n%s", err, out)
	}
	res, err := os.ReadFile(b.Result)
	if err != nil || json.Unmarshal(res, &errs) != nil || len(errs) != len(items) {
		t.Fatalf("harness: traced child wrote no usable result (%v)", err)
	}
	trace, err := os.ReadFile(traceFile)
	if err != nil {
		t.Fatalf("harness: %v", err)
	}
	offending = map[int][]string{}
	cur := -1
	seenBegin, seenEnd := 0, 0
	for _, line := range strings.Split(string(trace), "\n") {
		if i := strings.Index(line, markerPrefix); i >= 0 {
			rest := line[i+len(markerPrefix):]
			if strings.Contains(line, "resumed>") {
				continue
			}
			switch {
			case strings.HasPrefix(rest, "begin/"):
				n, _ := strconv.Atoi(strings.SplitN(rest[len("begin/"):], `"`, 2)[0])
				cur = n
				seenBegin++
			case strings.HasPrefix(rest, "end/"):
				cur = -1
				seenEnd++
			}
			continue
		}
		if cur < 0 {
			continue
		}
		nlines++
		for _, p := range pathsOfLine(line) {
			if sb.offending(p) {
				offending[cur] = append(offending[cur], strings.ReplaceAll(line, sb.top, "<top>"))
				break
			}
		}
	}
	if seenBegin != len(items) || seenEnd != len(items) {
		t.Fatalf("harness: trace holds %d begin and %d end markers for %d items", seenBegin, seenEnd, len(items))
	}
	return errs, offending, nlines
}

func (it traceItem) describe(sb *sandbox) string {
	arg := strings.ReplaceAll(it.Arg, sb.top, "<top>")
	switch it.Comp {
	case "fstree":
		return fmt.Sprintf("fstree(root=%s).%s(%q)", sb.rel(sb.root), fstreeOpNames[it.Op], arg)
	case "ds":
		return fmt.Sprintf("DirStructure(root=%s).%s(%q)", sb.rel(sb.root), dsOpNames[it.Op], arg)
	case "scan":
		return fmt.Sprintf("ResourceRegistry(storage=%s).ScanStorage(%q)", sb.rel(sb.root), arg)
	default:
		return fmt.Sprintf("UnpackResources(storage=%s, zip entries %+v)", sb.rel(sb.root), it.Entries)
	}
}

// checkTraced runs the items (all of which must be rejected) and fails on any file access outside the root.
func checkTraced(t fataler, sb *sandbox, items []traceItem) int {
	before := takeSnapshot(t, sb.top)
	errs, offending, nlines := runTraced(t, sb, items)
	for i, it := range items {
		if !errs[i] {
			t.Fatalf("%s returned no error although the name escapes the root (traced child)", it.describe(sb))
		}
		if lines := offending[i]; len(lines) > 0 {
			t.Fatalf("%s: the name escapes the root and must be rejected before any file-system access, but the call touched paths outside the root:\n  %s", it.describe(sb), strings.Join(lines, "\n  "))
		}
	}
	// the registry set-up inside the child recreates <root>/tmp: below the root; nothing else may differ
	if d := sb.diff(before, takeSnapshot(t, sb.top), sb.strictlyUnderRoot); len(d) > 0 {
		t.Fatalf("traced batch of rejected names changed the sandbox outside the root: %s", strings.Join(d, "; "))
	}
	return nlines
}

// genRejected draws an input of some component that must be rejected.
func genRejected(t *rapid.T, sb *sandbox, allowZip bool) (traceItem, bool) {
	kinds := []string{"fstree", "fstree", "ds", "ds", "scan"}
	if allowZip {
		kinds = append(kinds, "zip")
	}
	switch comp := rapid.SampledFrom(kinds).Draw(t, "component"); comp {
	case "fstree":
		op := rapid.IntRange(0, numFstreeOps-1).Draw(t, "op")
		key := genRelName(t, sb)
		if !fstreeMustReject(locate(sb.root, filepath.Join(sb.root, key)), op) {
			return traceItem{}, false
		}
		return traceItem{Comp: comp, Op: op, Arg: key}, true
	case "ds":
		op := rapid.IntRange(0, numDsOps-1).Draw(t, "op")
		var arg string
		if op == dsAbs {
			arg = genAbsPath(t, sb)
		} else {
			arg = genRelName(t, sb)
		}
		if locate(sb.root, dsTarget(sb.root, op, arg)) != escaping {
			return traceItem{}, false
		}
		return traceItem{Comp: comp, Op: op, Arg: arg, Perm: uint32(rapid.SampledFrom(perms).Draw(t, "perm"))}, true
	case "scan":
		arg := genAbsPath(t, sb)
		if locate(sb.root, arg) != escaping {
			return traceItem{}, false
		}
		return traceItem{Comp: comp, Arg: arg}, true
	default:
		_, tmpDir, _ := zipPaths(sb.root)
		entries := []zipEntry{{Name: "ok"}, {Name: genRelName(t, sb), Dir: rapid.Bool().Draw(t, "dirEntry")}}
		if locate(tmpDir, filepath.Join(tmpDir, entries[1].Name)) != escaping {
			return traceItem{}, false
		}
		return traceItem{Comp: comp, Entries: entries}, true
	}
}

func TestPropTraced(t *testing.T) {
	rapid.Check(t, func(t *rapid.T) {
		sb := drawSandbox(t, true)
		defer sb.remove()
		want := rapid.IntRange(8, 40).Draw(t, "batch")
		var items []traceItem
		haveZip := false
		for attempts := 0; len(items) < want && attempts < 6*want; attempts++ {
			it, ok := genRejected(t, sb, !haveZip)
			if !ok {
				continue
			}
			if it.Comp == "zip" {
				haveZip = true
				archive, _, _ := zipPaths(sb.root)
				mustWrite(t, archive, buildZip(t, it.Entries))
			}
			items = append(items, it)
			stats.Class("traced_" + it.Comp + "_rejected_input")
		}
		if len(items) == 0 {
			t.Skip("no rejected input drawn")
		}
		nlines := checkTraced(t, sb, items)
		stats.ClassN("traced_file_syscalls_inside_item_windows", int64(nlines))
		var fp strings.Builder
		for _, it := range items {
			fmt.Fprintf(&fp, "%s:%d:%s:%+v|", it.Comp, it.Op, strings.ReplaceAll(it.Arg, sb.top, "<top>"), it.Entries)
		}
		stats.Case("traced:"+sb.rootName+fp.String(), true, "traced_batches")
		if stats.WantSample("traced") {
			stats.Sample("traced", map[string]any{"root": sb.rel(sb.root), "items": len(items), "first": items[0].describe(sb)})
		}
	})
}

// TestRegTracedWitnesses runs the minimal inputs of the repaired findings under the tracer.
func TestRegTracedWitnesses(t *testing.T) {
	sb := regSandbox(t, 2, false)
	archive, _, _ := zipPaths(sb.root)
	entries := []zipEntry{{Name: "ok"}, {Name: "../../../fstree-other/canary"}}
	mustWrite(t, archive, buildZip(t, entries))
	items := []traceItem{
		{Comp: "fstree", Op: opGet, Arg: "../fstree-other/canary"},
		{Comp: "fstree", Op: opPut, Arg: "../fstree-other/evil"},
		{Comp: "fstree", Op: opDelete, Arg: "../fstree2/canary"},
		{Comp: "fstree", Op: opQuery, Arg: "../fstree-other"},
		{Comp: "fstree", Op: opPut, Arg: "."},
		{Comp: "fstree", Op: opDelete, Arg: "a/.."},
		{Comp: "ds", Op: dsAbs, Arg: sb.root + "/x/../../y", Perm: 0o755},
		{Comp: "ds", Op: dsRelPath, Arg: "../fstree-other/new", Perm: 0o700},
		{Comp: "scan", Arg: sb.root + "-other"},
		{Comp: "zip", Entries: entries},
	}
	checkTraced(t, sb, items)
}
