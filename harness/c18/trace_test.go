package c18

const traceChildEnv = "VERIF_C18_TRACE_CHILD"

func traceChildMain() int { return 0 }
