package c18

import (
	"path/filepath"
	"strings"

	"pgregory.net/rapid"

	"verifharness/internal/stats"
)

var rootNames = []string{"fstree", "store", "db.d", "r"}

// segments returns the alphabet the names are built from.
func (sb *sandbox) segments() []string {
	s := []string{
		".", "..", "", "a", "b", "sub", "in", "rec", "pkg", "tmp", "other",
		"canary", "canary_v1-2-3", "res_v1-0-0", "x_v2-0-0",
		sb.rootName, sb.rootName + "-other", sb.rootName + "2",
	}
	return append(s, sb.levels...)
}

// drawSandbox draws the layout parameters and builds the sandbox.
func drawSandbox(t *rapid.T, allowEmptyRoot bool) *sandbox {
	name := rapid.SampledFrom(rootNames).Draw(t, "rootName")
	depth := rapid.IntRange(1, 3).Draw(t, "rootDepth")
	empty := false
	if allowEmptyRoot {
		empty = rapid.IntRange(0, 4).Draw(t, "emptyRoot") == 0
	}
	return newSandbox(t, name, depth, empty)
}

// relTo returns the relative path from the root to an absolute sandbox path.
func (sb *sandbox) relTo(p string) string {
	r, err := filepath.Rel(sb.root, p)
	if err != nil {
		return p
	}
	return r
}

func join(t *rapid.T, segs []string) string {
	var b strings.Builder
	for i, s := range segs {
		if i > 0 {
			if rapid.IntRange(0, 11).Draw(t, "backslash") == 0 {
				b.WriteByte('\\')
			} else {
				b.WriteByte('/')
			}
		}
		b.WriteString(s)
	}
	return b.String()
}

// limitDotDot rewrites parent references beyond the allowed number so that even
// an unchecked component stays inside the snapshotted tree.
func limitDotDot(segs []string) []string {
	n := 0
	for i, s := range segs {
		if s == ".." {
			n++
			if n > maxDotDot {
				segs[i] = "."
			}
		}
	}
	return segs
}

// genRelName draws a name that a component joins below its root.
func genRelName(t *rapid.T, sb *sandbox) string {
	alpha := sb.segments()
	seg := rapid.SampledFrom(alpha)
	var segs []string
	kind := rapid.IntRange(0, 5).Draw(t, "nameKind")
	switch kind {
	case 0: // uniform segments
		n := rapid.IntRange(1, 6).Draw(t, "nseg")
		for i := 0; i < n; i++ {
			segs = append(segs, seg.Draw(t, "seg"))
		}
	case 1: // a detour below the root, then the exact relative path to something outside
		target := rapid.SampledFrom(append(append([]string{}, sb.canaries...), sb.outDirs...)).Draw(t, "outsideTarget")
		if rapid.Bool().Draw(t, "belowTarget") {
			target = filepath.Join(target, "evil")
		}
		rel := strings.Split(sb.relTo(target), sep)
		det := rapid.IntRange(0, 2).Draw(t, "detour")
		for i := 0; i < det; i++ {
			segs = append(segs, rapid.SampledFrom([]string{"a", "in", "sub", sb.rootName + "-other"}).Draw(t, "detourSeg"))
		}
		for i := 0; i < det; i++ {
			segs = append(segs, "..")
		}
		segs = append(segs, rel...)
	case 2: // leaves the root and comes back
		up := rapid.IntRange(1, sb.depth).Draw(t, "up")
		for i := 0; i < up; i++ {
			segs = append(segs, "..")
		}
		path := append(append([]string{}, sb.levels...), sb.rootName)
		segs = append(segs, path[len(path)-up:]...)
		if rapid.Bool().Draw(t, "wrongReturn") {
			// return into the directory whose name extends the root's name instead
			segs[len(segs)-1] = sb.rootName + rapid.SampledFrom([]string{"-other", "2"}).Draw(t, "ext")
		}
		n := rapid.IntRange(0, 2).Draw(t, "tail")
		for i := 0; i < n; i++ {
			segs = append(segs, seg.Draw(t, "seg"))
		}
	case 3: // stays inside with dots and empty segments
		n := rapid.IntRange(1, 5).Draw(t, "nseg")
		for i := 0; i < n; i++ {
			s := rapid.SampledFrom([]string{"a", "b", "in", "rec", "pkg", "sub", "x_v2-0-0", ".", "", sb.rootName + "-other"}).Draw(t, "seg")
			segs = append(segs, s)
			if rapid.IntRange(0, 3).Draw(t, "undo") == 0 {
				segs = append(segs, "..")
			}
		}
	case 4: // only parent references and dots
		n := rapid.IntRange(1, 4).Draw(t, "nseg")
		for i := 0; i < n; i++ {
			segs = append(segs, rapid.SampledFrom([]string{"..", ".", ""}).Draw(t, "seg"))
		}
		if rapid.Bool().Draw(t, "thenName") {
			segs = append(segs, seg.Draw(t, "seg"))
		}
	default: // absolute-looking names
		switch rapid.IntRange(0, 2).Draw(t, "absKind") {
		case 0:
			segs = append([]string{""}, strings.Split(strings.TrimPrefix(rapid.SampledFrom(sb.canaries).Draw(t, "absCanary"), sep), sep)...)
		case 1:
			segs = []string{"", seg.Draw(t, "seg"), seg.Draw(t, "seg")}
		default:
			segs = []string{"", "..", sb.rootName + "-other", "canary"}
		}
	}
	segs = limitDotDot(segs)
	name := join(t, segs)
	if rapid.IntRange(0, 5).Draw(t, "trailing") == 0 {
		name += "/"
	}
	return name
}

// genAbsPath draws an absolute path handed to a component that takes absolute
// paths (EnsureAbsPath, ScanStorage). All paths lie inside the sandbox.
func genAbsPath(t *rapid.T, sb *sandbox) string {
	switch rapid.IntRange(0, 7).Draw(t, "absPathKind") {
	case 0, 1, 2, 3: // root + separator + uncleaned name
		return sb.root + "/" + genRelName(t, sb)
	case 4: // the same, cleaned by the caller
		return filepath.Join(sb.root, genRelName(t, sb))
	case 5: // root name extended without separator
		ext := rapid.SampledFrom([]string{"-other", "2", "-other/sub", "2/new", "-other/../" + sb.rootName, "", "/", "/.", "/.."}).Draw(t, "ext")
		return sb.root + ext
	case 6: // something that exists outside
		p := rapid.SampledFrom(append(append([]string{}, sb.canaries...), sb.outDirs...)).Draw(t, "outsideTarget")
		if rapid.Bool().Draw(t, "below") {
			p += "/new"
		}
		return p
	default: // an ancestor of the root
		p := sb.root
		up := rapid.IntRange(1, sb.depth).Draw(t, "up")
		for i := 0; i < up; i++ {
			p = filepath.Dir(p)
		}
		if rapid.Bool().Draw(t, "below") {
			p += "/" + sb.rootName + "-other/new"
		}
		return p
	}
}

// nameClasses records generator classes of a name (measured, see NOTES.md).
func (sb *sandbox) nameClasses(component, name string, where place) {
	stats.Class(component + "_" + where.String())
	if strings.Contains(name, sb.rootName+"-other") || strings.Contains(name, sb.rootName+"2") {
		stats.Class(component + "_name_sibling_prefix")
		if where == escaping {
			stats.Class(component + "_name_sibling_prefix_escaping")
		}
	}
	if strings.HasPrefix(name, "/") {
		stats.Class(component + "_name_absolute")
	}
	if strings.Contains(name, "\\") {
		stats.Class(component + "_name_backslash")
	}
	if strings.Contains(name, "..") {
		stats.Class(component + "_name_dotdot")
	}
	if strings.HasSuffix(name, "/") {
		stats.Class(component + "_name_trailing_sep")
	}
}
