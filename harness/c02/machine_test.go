package c02

import (
	"context"
	"encoding/json"
	"errors"
	"fmt"
	"os"
	"sort"
	"strings"

	"github.com/safing/portbase/database"
	"github.com/safing/portbase/database/query"
	"github.com/safing/portbase/database/record"
	"pgregory.net/rapid"

	"verifharness/internal/stats"
)

type cacheMode int

const (
	cacheNone cacheMode = iota
	cacheRead
	cacheDelayed
)

func (c cacheMode) String() string { return [...]string{"nocache", "readcache", "delayedwrite"}[c] }

type config struct {
	be     backend
	shadow bool
	cache  cacheMode
}

func (c config) String() string {
	sd := "sd0"
	if c.shadow {
		sd = "sd1"
	}
	return fmt.Sprintf("%s/%s/%s", c.be, sd, c.cache)
}

// exclusion flags of open findings (see known-findings.part)
const (
	flagNestedTyped = "q.nested_selector_on_typed"
)

type machine struct {
	cfg    config
	h      *handle
	dbName string
	ns     string // key namespace inside a shared database (badger), "" otherwise
	db     *database.Interface
	pool   []string
	m      *model

	cacheSize int
	dirty     bool // delayed writes that were not flushed yet
	// keys written through the delayed-write cache whose flush may still (re-)stamp
	// Modified and a relative expiry: the flush saves the record, and saving sets them
	pending map[string]bool
	stopBG  func()

	hist []string
	// what the history contained (non-triviality and generator measurement)
	hadDelete, hadExpiry, hadMaint       bool
	deletedKeys, expiredKeys             map[string]bool
	readAfterDelete, readAfterExpiry     bool
	queryNonBoundary, queryCond          bool
	queryDepth2, maintAfterDelete        bool
	batchPut, purged, purgeNotImpl       bool
	updated, evictionLikely, nestedQuery bool
	steps                                int
	bulkAllowed, bulkDone, bulkPurge1000 bool
	// abandoned: one of portbase's one-second stall timers fired (the test process
	// was not scheduled for that long); the rest of the case is not judged
	abandoned bool
}

// stallTimeout recognises the errors of portbase's wall-clock guards: a batch that
// is not fed for one second and a query whose consumer does not read for one
// second. They say nothing about the property; under extreme machine load they
// could fire, and then the case is dropped instead of judged.
func stallTimeout(err error) bool {
	if err == nil {
		return false
	}
	m := err.Error()
	return strings.Contains(m, "putmany unused for too long") || strings.Contains(m, "query timeout") || strings.Contains(m, "query buffer full, timeout")
}

type abandon struct{}

func (s *machine) guard(f func(*rapid.T)) func(*rapid.T) {
	return func(t *rapid.T) {
		if s.abandoned {
			return
		}
		defer func() {
			if r := recover(); r != nil {
				if _, ok := r.(abandon); ok {
					s.abandoned = true
					stats.Warn("a case was abandoned because a one-second stall timer of portbase fired (machine overloaded?)")
					stats.Class("abandoned_stall_timeout")
					return
				}
				panic(r)
			}
		}()
		f(t)
	}
}

func (s *machine) full(k string) string { return s.dbName + ":" + s.ns + k }

func (s *machine) logf(format string, a ...any) {
	s.hist = append(s.hist, fmt.Sprintf(format, a...))
}

// ---------------------------------------------------------------- set-up / tear-down

func newMachine(t *rapid.T, cfg config) *machine {
	s := &machine{cfg: cfg, m: newModel(), deletedKeys: map[string]bool{}, expiredKeys: map[string]bool{}, pending: map[string]bool{}}
	var err error
	if cfg.be == beBadger {
		s.h, err = sharedBadger(cfg.shadow)
		if err == nil {
			s.ns = fmt.Sprintf("n%d/", dbCounter.Add(1))
		}
	} else {
		s.h, err = openDB(freshName("c02"), cfg.be, cfg.shadow)
	}
	if err != nil {
		t.Fatalf("harness: cannot open database: %v", err)
	}
	s.dbName = s.h.name
	s.pool = genKeyPool(t, cfg.be == beFSTree)
	if cfg.be.hasBatcher() {
		s.bulkAllowed = rapid.IntRange(0, 9).Draw(t, "bulkCase") == 0
	}

	opts := &database.Options{Local: true, Internal: true}
	if cfg.cache != cacheNone {
		s.cacheSize = rapid.SampledFrom([]int{1, 2, 3, 5, 64, 256, 1024}).Draw(t, "cacheSize")
		opts.CacheSize = s.cacheSize
		if s.cacheSize < len(s.pool) {
			s.evictionLikely = true
		}
	}
	if cfg.cache == cacheDelayed {
		opts.DelayCachedWrites = s.dbName
	}
	s.db = database.NewInterface(opts)

	if cfg.cache == cacheDelayed && rapid.IntRange(0, 3).Draw(t, "backgroundWriter") == 0 {
		ctx, cancel := context.WithCancel(context.Background())
		done := make(chan error, 1)
		go func() { done <- s.db.DelayedCacheWriter(ctx) }()
		s.stopBG = func() {
			cancel()
			if err := <-done; err != nil {
				t.Fatalf("DelayedCacheWriter returned %v", err)
			}
			s.dirty = false
			s.restamp(true)
		}
		stats.Class("delayed_background_writer")
	}
	s.logf("config %s pool=%v cache=%d bg=%v", cfg, s.pool, s.cacheSize, s.stopBG != nil)
	journal(s)
	return s
}

func (s *machine) close() {
	if s.stopBG != nil {
		// stop the writer without a verdict (the case may already have failed)
		func() {
			defer func() { _ = recover() }()
			s.stopBG()
		}()
		s.stopBG = nil
	}
	if s.cfg.be != beBadger {
		s.h.retire()
	}
}

func journal(s *machine) {
	p := os.Getenv("VERIF_JOURNAL")
	if p == "" {
		return
	}
	b, _ := json.Marshal(map[string]any{"config": s.cfg.String(), "rapid_seed": os.Getenv("VERIF_RAPID_SEED"), "pool": s.pool, "db": s.dbName})
	_ = os.WriteFile(p, b, 0o644)
}

// ---------------------------------------------------------------- helpers

func (s *machine) drawKey(t *rapid.T) string {
	if rapid.IntRange(0, 14).Draw(t, "foreignKey") == 0 {
		return "zz"
	}
	return rapid.SampledFrom(s.pool).Draw(t, "key")
}

// drawLiveKey prefers keys that are visible in the model.
func (s *machine) drawLiveKey(t *rapid.T) string {
	vis := s.m.visibleKeys()
	if len(vis) > 0 && rapid.IntRange(0, 4).Draw(t, "preferLive") != 0 {
		return rapid.SampledFrom(vis).Draw(t, "liveKey")
	}
	return s.drawKey(t)
}

type preset struct {
	kind   string // none, past, future, relative
	abs    int64
	rel    int64
	secret bool
	crown  bool
}

func genPreset(t *rapid.T) preset {
	p := preset{kind: "none"}
	switch rapid.IntRange(0, 11).Draw(t, "expiryKind") {
	case 0:
		p.kind, p.abs = "past", rapid.SampledFrom([]int64{farPast1, farPast2}).Draw(t, "past")
	case 1, 2:
		p.kind, p.abs = "future", rapid.SampledFrom([]int64{farFuture1, farFuture2}).Draw(t, "future")
	case 3:
		p.kind, p.rel = "relative", rapid.SampledFrom([]int64{relTTLMin, 86400, 31536000}).Draw(t, "ttl")
	}
	if rapid.IntRange(0, 9).Draw(t, "secret") == 0 {
		p.secret = true
	}
	if rapid.IntRange(0, 9).Draw(t, "crown") == 0 {
		p.crown = true
	}
	return p
}

func (p preset) any() bool { return p.kind != "none" || p.secret || p.crown }

func (p preset) apply(r record.Record) {
	if !p.any() {
		return // leave the metadata nil: the interface creates it
	}
	r.CreateMeta()
	switch p.kind {
	case "past", "future":
		r.Meta().SetAbsoluteExpiry(p.abs)
	case "relative":
		r.Meta().SetRelativateExpiry(p.rel)
	}
	if p.secret {
		r.Meta().MakeSecret()
	}
	if p.crown {
		r.Meta().MakeCrownJewel()
	}
}

func (p preset) String() string {
	out := p.kind
	if p.abs != 0 {
		out += fmt.Sprintf("=%d", p.abs)
	}
	if p.rel != 0 {
		out += fmt.Sprintf("=%d", p.rel)
	}
	if p.secret {
		out += "+secret"
	}
	if p.crown {
		out += "+crown"
	}
	return out
}

// stored returns the model entry for a fresh record put with the preset.
func storedFresh(v value, p preset, t0, t1 int64, putNew bool) *mrec {
	m := &mrec{val: v, created: ival{t0, t1}, modified: ival{t0, t1}, expires: []ival{{0, 0}}, secret: p.secret, crown: p.crown}
	if putNew {
		return m // PutNew resets all timestamps and expiry
	}
	switch p.kind {
	case "past", "future":
		m.expires = []ival{{p.abs, p.abs}}
	case "relative":
		m.relTTL = p.rel
		m.expires = []ival{{t0 + p.rel, t1 + p.rel}}
	}
	return m
}

func (s *machine) noteWrite(key string, m *mrec) {
	s.m.recs[key] = m
	if m.expired() {
		s.hadExpiry = true
		s.expiredKeys[key] = true
	}
	if s.cfg.cache == cacheDelayed {
		s.dirty = true
		s.pending[key] = true
	}
}

// restamp widens the acceptable Modified (and relative expiry) of the records
// whose delayed write may have been flushed up to now: the flush saves the record
// again, which sets Modified and refreshes a relative expiry.
func (s *machine) restamp(clear bool) {
	now := nowUnix()
	for k := range s.pending {
		r := s.m.recs[k]
		if r != nil {
			nm := *r
			if nm.modified.hi < now {
				nm.modified.hi = now
			}
			if nm.relTTL > 0 {
				exp := append([]ival{}, nm.expires...)
				for i := range exp {
					if exp[i].lo > farPast2 && exp[i].hi < now+nm.relTTL {
						exp[i].hi = now + nm.relTTL
					}
				}
				nm.expires = exp
			}
			s.m.recs[k] = &nm
		}
		if clear {
			delete(s.pending, k)
		}
	}
}

func (s *machine) afterBypass() {
	// documented: PutMany and Purge bypass the cache of the interface
	if s.cfg.cache != cacheNone {
		s.db.ClearCache()
	}
}

// needClean makes sure no delayed write is pending before an operation that the
// statement only covers "after a flush".
func (s *machine) needClean(t *rapid.T) {
	if s.cfg.cache == cacheDelayed && s.dirty {
		s.flush(t, "implicit")
	}
}

func (s *machine) flush(t *rapid.T, why string) {
	how := rapid.IntRange(0, 1).Draw(t, "flushHow")
	if how == 0 {
		s.db.FlushCache()
		s.logf("FlushCache (%s)", why)
	} else {
		ctx, cancel := context.WithCancel(context.Background())
		cancel()
		if err := s.db.DelayedCacheWriter(ctx); err != nil {
			t.Fatalf("%s\nDelayedCacheWriter(cancelled context) on a back-end with batch support returned %v", s.render(), err)
		}
		s.logf("DelayedCacheWriter(cancelled) (%s)", why)
	}
	s.dirty = false
	s.restamp(s.stopBG == nil)
	stats.Class("flush")
}

func (s *machine) render() string {
	return "history:\n  " + strings.Join(s.hist, "\n  ")
}

func (s *machine) fail(t *rapid.T, format string, a ...any) {
	for _, x := range a {
		if err, ok := x.(error); ok && stallTimeout(err) {
			panic(abandon{})
		}
	}
	t.Fatalf("%s\nVIOLATION: %s", s.render(), fmt.Sprintf(format, a...))
}

// ---------------------------------------------------------------- actions

func (s *machine) actPut(t *rapid.T, putNew bool) {
	key := rapid.SampledFrom(s.pool).Draw(t, "key")
	v := genValue(t)
	p := genPreset(t)
	r := newRecord(s.full(key), v)
	p.apply(r)
	name := "Put"
	if putNew {
		name = "PutNew"
	}
	// expiry-setting through the interface's options: every record saved through such an interface gets the expiry,
	// whatever the record brought along (and also when it is stored as new). Without a cache only: a write through
	// another interface is not seen by an interface cache (documented).
	db, alwaysAbs, alwaysRel := s.db, int64(0), int64(0)
	if s.cfg.cache == cacheNone && rapid.IntRange(0, 5).Draw(t, "always") == 0 {
		switch rapid.IntRange(0, 2).Draw(t, "alwaysKind") {
		case 0:
			alwaysAbs = rapid.SampledFrom([]int64{farFuture1, farFuture2}).Draw(t, "alwaysAbsFuture")
		case 1:
			alwaysAbs = rapid.SampledFrom([]int64{farPast1, farPast2}).Draw(t, "alwaysAbsPast")
		default:
			alwaysRel = rapid.SampledFrom([]int64{relTTLMin, 86400}).Draw(t, "alwaysRel")
		}
		db = database.NewInterface(&database.Options{Local: true, Internal: true, AlwaysSetAbsoluteExpiry: alwaysAbs, AlwaysSetRelativateExpiry: alwaysRel})
		name += fmt.Sprintf(" via an interface with AlwaysSetAbsoluteExpiry=%d AlwaysSetRelativateExpiry=%d:", alwaysAbs, alwaysRel)
	}
	s.logf("%s %s %s meta=%s", name, key, v, p)
	t0 := nowUnix()
	var err error
	if putNew {
		err = db.PutNew(r)
	} else {
		err = db.Put(r)
	}
	t1 := nowUnix()
	if err != nil {
		s.fail(t, "%s(%s) failed: %v", name, key, err)
	}
	m := storedFresh(v, p, t0, t1, putNew)
	switch {
	case alwaysAbs != 0:
		m.relTTL = 0
		m.expires = []ival{{alwaysAbs, alwaysAbs}}
	case alwaysRel != 0:
		m.relTTL = alwaysRel
		m.expires = []ival{{t0 + alwaysRel, t1 + alwaysRel}}
	}
	s.noteWrite(key, m)
}

// actUpdate is the read-modify-write cycle: Get, change the data (and sometimes the
// expiry) on the returned object, Put it back.
func (s *machine) actUpdate(t *rapid.T) {
	key := s.drawLiveKey(t)
	want := s.m.recs[key]
	got, err := s.db.Get(s.full(key))
	if !want.visible() {
		s.logf("Get-for-update %s", key)
		if !errors.Is(err, database.ErrNotFound) {
			s.fail(t, "Get(%s) = (%v, %v), want not-found", key, got, err)
		}
		s.noteRead(key)
		return
	}
	if err != nil {
		s.logf("Get-for-update %s", key)
		s.fail(t, "Get(%s) failed: %v; stored: %s", key, err, want.val)
	}
	if cerr := checkRecord("Get("+key+")", got, s.ns+key, want, s.cfg.be.serializes()); cerr != nil {
		s.logf("Get-for-update %s", key)
		s.fail(t, "%v", cerr)
	}

	nm := *want
	var put record.Record
	if want.val.repr == reprTyped {
		c := genContent(t)
		nm.val = encodeValue(reprTyped, c, nil, nil)
		switch r := got.(type) {
		case *Rec:
			r.Lock()
			r.setContent(c)
			r.Unlock()
			put = r
		case *record.Wrapper:
			rec := &Rec{}
			if uerr := record.Unwrap(r, rec); uerr != nil {
				s.fail(t, "Unwrap of Get(%s) failed: %v", key, uerr)
			}
			rec.setContent(c)
			put = rec
		}
	} else {
		// same wrapper form, new payload
		var nv value
		switch want.val.repr {
		case reprRAW:
			nv = encodeValue(reprRAW, content{}, nil, rapid.SliceOfN(rapid.Byte(), 0, 6).Draw(t, "raw"))
		default:
			nv = encodeValue(want.val.repr, genContent(t), nil, nil)
		}
		nm.val = nv
		w := got.(*record.Wrapper)
		w.Lock()
		w.Data = append([]byte{}, nv.data...)
		w.Unlock()
		put = w
	}
	exp := "keep"
	switch rapid.IntRange(0, 7).Draw(t, "updExpiry") {
	case 0:
		x := rapid.SampledFrom([]int64{farPast2, farFuture1, 0}).Draw(t, "abs")
		put.Lock()
		put.Meta().SetAbsoluteExpiry(x)
		put.Unlock()
		nm.expires = []ival{{x, x}}
		nm.relTTL = 0
		exp = fmt.Sprintf("abs=%d", x)
	case 1:
		d := rapid.SampledFrom([]int64{relTTLMin, 86400}).Draw(t, "rel")
		put.Lock()
		put.Meta().SetRelativateExpiry(d)
		put.Unlock()
		nm.relTTL = d
		exp = fmt.Sprintf("rel=%d", d)
	}
	s.logf("Update %s (Get, modify, Put) -> %s expiry:%s", key, nm.val, exp)
	t0 := nowUnix()
	err = s.db.Put(put)
	t1 := nowUnix()
	if err != nil {
		s.fail(t, "Put(%s) of the modified record failed: %v", key, err)
	}
	nm.modified = ival{t0, t1}
	if nm.relTTL > 0 {
		nm.expires = []ival{{t0 + nm.relTTL, t1 + nm.relTTL}}
	}
	s.noteWrite(key, &nm)
	s.updated = true
}

func (s *machine) noteRead(key string) {
	if s.deletedKeys[key] {
		s.readAfterDelete = true
	}
	if s.expiredKeys[key] {
		s.readAfterExpiry = true
	}
}

func (s *machine) checkGet(t *rapid.T, key string, how string) {
	if s.stopBG != nil {
		s.restamp(false) // the background writer may have flushed at any time
	}
	want := s.m.recs[key]
	got, err := s.db.Get(s.full(key))
	s.noteRead(key)
	if !want.visible() {
		if !errors.Is(err, database.ErrNotFound) {
			state := "never stored"
			if want != nil && want.deleted {
				state = "deleted"
			} else if want != nil {
				state = "expired"
			}
			if err == nil {
				s.fail(t, "%s: Get(%s) returned a record (meta %+v), the key is %s: want not-found", how, key, *got.Meta(), state)
			}
			s.fail(t, "%s: Get(%s) failed with %v, the key is %s: want not-found", how, key, err, state)
		}
		return
	}
	if err != nil {
		s.fail(t, "%s: Get(%s) failed: %v; most recently stored: %s", how, key, err, want.val)
	}
	if cerr := checkRecord(how+": Get("+key+")", got, s.ns+key, want, s.cfg.be.serializes()); cerr != nil {
		s.fail(t, "%v", cerr)
	}
}

func (s *machine) actGet(t *rapid.T) {
	key := s.drawKey(t)
	s.logf("Get %s", key)
	s.checkGet(t, key, "action")
}

func (s *machine) actExists(t *rapid.T) {
	key := s.drawKey(t)
	s.logf("Exists %s", key)
	ok, err := s.db.Exists(s.full(key))
	s.noteRead(key)
	if err != nil {
		s.fail(t, "Exists(%s) failed: %v", key, err)
	}
	if want := s.m.recs[key].visible(); ok != want {
		s.fail(t, "Exists(%s) = %v, want %v", key, ok, want)
	}
}

func (s *machine) actDelete(t *rapid.T) {
	key := s.drawLiveKey(t)
	// a delete through an interface whose options set an expiry on everything it saves deletes all the same
	db, via := s.db, ""
	if s.cfg.cache == cacheNone && rapid.IntRange(0, 5).Draw(t, "always") == 0 {
		opts := &database.Options{Local: true, Internal: true}
		if rapid.Bool().Draw(t, "alwaysAbs") {
			opts.AlwaysSetAbsoluteExpiry = rapid.SampledFrom([]int64{farFuture1, farFuture2}).Draw(t, "alwaysAbsFuture")
		} else {
			opts.AlwaysSetRelativateExpiry = rapid.SampledFrom([]int64{relTTLMin, 86400}).Draw(t, "alwaysRel")
		}
		db = database.NewInterface(opts)
		via = fmt.Sprintf(" via an interface with AlwaysSetAbsoluteExpiry=%d AlwaysSetRelativateExpiry=%d", opts.AlwaysSetAbsoluteExpiry, opts.AlwaysSetRelativateExpiry)
	}
	s.logf("Delete %s%s", key, via)
	err := db.Delete(s.full(key))
	if !s.m.recs[key].visible() {
		if !errors.Is(err, database.ErrNotFound) {
			s.fail(t, "Delete(%s) of a key that is not visible returned %v, want not-found", key, err)
		}
		return
	}
	if err != nil {
		s.fail(t, "Delete(%s) failed: %v", key, err)
	}
	nm := *s.m.recs[key]
	nm.deleted = true
	s.m.recs[key] = &nm
	s.hadDelete = true
	s.deletedKeys[key] = true
}

func (s *machine) actSetAbs(t *rapid.T) {
	s.needClean(t)
	key := s.drawLiveKey(t)
	x := rapid.SampledFrom([]int64{0, farPast1, farPast2, farFuture1, farFuture2}).Draw(t, "abs")
	s.logf("SetAbsoluteExpiry %s %d", key, x)
	t0 := nowUnix()
	err := s.db.SetAbsoluteExpiry(s.full(key), x)
	t1 := nowUnix()
	if !s.m.recs[key].visible() {
		if !errors.Is(err, database.ErrNotFound) {
			s.fail(t, "SetAbsoluteExpiry(%s) of a key that is not visible returned %v, want not-found", key, err)
		}
		return
	}
	if err != nil {
		s.fail(t, "SetAbsoluteExpiry(%s) failed: %v", key, err)
	}
	nm := *s.m.recs[key]
	nm.expires = []ival{{x, x}}
	nm.relTTL = 0
	nm.modified = ival{t0, t1}
	s.m.recs[key] = &nm
	if nm.expired() {
		s.hadExpiry = true
		s.expiredKeys[key] = true
	}
}

func (s *machine) actSetRel(t *rapid.T) {
	s.needClean(t)
	key := s.drawLiveKey(t)
	d := rapid.SampledFrom([]int64{relTTLMin, 86400, 0}).Draw(t, "rel")
	s.logf("SetRelativateExpiry %s %d", key, d)
	t0 := nowUnix()
	err := s.db.SetRelativateExpiry(s.full(key), d)
	t1 := nowUnix()
	if !s.m.recs[key].visible() {
		if !errors.Is(err, database.ErrNotFound) {
			s.fail(t, "SetRelativateExpiry(%s) of a key that is not visible returned %v, want not-found", key, err)
		}
		return
	}
	if err != nil {
		s.fail(t, "SetRelativateExpiry(%s) failed: %v", key, err)
	}
	nm := *s.m.recs[key]
	// The record is saved by the call: a relative expiry it already carried is
	// refreshed. Whether the new duration already shows in Expires or only after the
	// next save is not stated: both are accepted.
	exp := append([]ival{}, nm.expires...)
	if nm.relTTL > 0 {
		exp = []ival{{t0 + nm.relTTL, t1 + nm.relTTL}}
	}
	if d > 0 {
		exp = append(exp, ival{t0 + d, t1 + d})
	}
	nm.expires = exp
	nm.relTTL = d
	nm.modified = ival{t0, t1}
	s.m.recs[key] = &nm
}

func (s *machine) actPutMany(t *rapid.T) {
	s.needClean(t)
	n := rapid.IntRange(1, 5).Draw(t, "batch")
	type item struct {
		key string
		v   value
		p   preset
		r   record.Record
	}
	items := make([]item, n)
	for i := range items {
		it := item{key: rapid.SampledFrom(s.pool).Draw(t, "key"), v: genValue(t), p: genPreset(t)}
		it.r = newRecord(s.full(it.key), it.v)
		it.p.apply(it.r)
		items[i] = it
		s.logf("PutMany[%d/%d] %s %s meta=%s", i+1, n, it.key, it.v, it.p)
	}
	put := s.db.PutMany(s.dbName)
	t0 := nowUnix()
	if !s.cfg.be.hasBatcher() {
		// not implemented by this storage: the error arrives with the first call that
		// reports one; nothing may have been stored.
		var err error
		if rapid.Bool().Draw(t, "probeFirst") {
			err = put(nil)
		} else {
			err = put(items[0].r)
			if err == nil {
				err = put(nil)
			}
		}
		if !errors.Is(err, database.ErrNotImplemented) {
			s.fail(t, "PutMany on %s returned %v, want not-implemented", s.cfg.be, err)
		}
		s.logf("PutMany -> not implemented")
		stats.Class("putmany_not_implemented")
		s.afterBypass()
		return
	}
	for _, it := range items {
		if err := put(it.r); err != nil {
			s.fail(t, "PutMany put(%s) failed: %v", it.key, err)
		}
	}
	if err := put(nil); err != nil {
		s.fail(t, "PutMany finish failed: %v", err)
	}
	t1 := nowUnix()
	for _, it := range items {
		m := storedFresh(it.v, it.p, t0, t1, false)
		s.m.recs[it.key] = m
		if m.expired() {
			s.hadExpiry = true
			s.expiredKeys[it.key] = true
		}
	}
	s.afterBypass()
	s.batchPut = true
}

type drawnQuery struct {
	prefix      string
	c           *cond
	nonBoundary bool
}

func (s *machine) drawPrefix(t *rapid.T) (string, bool) {
	var p string
	switch rapid.IntRange(0, 9).Draw(t, "prefixKind") {
	case 0:
		p = ""
	case 1:
		p = rapid.SampledFrom([]string{"zz", "a/zz/q", "b/", "ab/a/a/a", "ä/"}).Draw(t, "foreignPrefix")
	case 2:
		p = rapid.SampledFrom(s.pool).Draw(t, "pkey") + rapid.SampledFrom([]string{"/", "x", ""}).Draw(t, "psuffix")
	default:
		k := rapid.SampledFrom(s.pool).Draw(t, "pkey")
		p = k[:rapid.IntRange(0, len(k)).Draw(t, "cut")]
	}
	nb := false
	if p != "" && !strings.HasSuffix(p, "/") {
		for _, k := range s.pool {
			if strings.HasPrefix(k, p) && len(k) > len(p) && k[len(p)] != '/' {
				nb = true
			}
		}
	}
	return p, nb
}

func (s *machine) drawQuery(t *rapid.T) drawnQuery {
	var q drawnQuery
	q.prefix, q.nonBoundary = s.drawPrefix(t)
	if rapid.IntRange(0, 3).Draw(t, "withCond") != 0 {
		q.c = genCond(t, 3)
	}
	// open finding: nested selectors on records held as typed structs
	if q.c != nil && q.c.usesNested() && stats.Excl(flagNestedTyped) && s.cfg.be == beHashmap {
		typedInScope := false
		for k, r := range s.m.recs {
			if r.visible() && strings.HasPrefix(k, q.prefix) && r.val.repr == reprTyped {
				typedInScope = true
			}
		}
		if typedInScope {
			stats.Excluded(flagNestedTyped)
			q.c.flatten()
		}
	}
	return q
}

// expected result of a query: keys that must be returned, keys that may be.
func (s *machine) expected(q drawnQuery) (must map[string]bool, may map[string]bool) {
	must, may = map[string]bool{}, map[string]bool{}
	for k, r := range s.m.recs {
		if !r.visible() || !strings.HasPrefix(k, q.prefix) {
			continue
		}
		switch expect(r.val, q.c) {
		case mustMatch:
			must[k] = true
		case eitherWay:
			may[k] = true
		}
	}
	return
}

func (s *machine) runQuery(t *rapid.T, q drawnQuery, what string) {
	pq := query.New(s.dbName + ":" + s.ns + q.prefix)
	if q.c != nil {
		pq = pq.Where(q.c.toQuery())
	}
	it, err := s.db.Query(pq)
	if err != nil {
		s.fail(t, "%s: Query(prefix %q, where %s) failed: %v", what, q.prefix, q.c, err)
	}
	got := map[string]int{}
	var recs []record.Record
	for r := range it.Next {
		recs = append(recs, r)
	}
	if err := it.Err(); err != nil {
		s.fail(t, "%s: query (prefix %q, where %s) ended with error %v", what, q.prefix, q.c, err)
	}
	if s.stopBG != nil {
		s.restamp(false)
	}
	must, may := s.expected(q)
	for _, r := range recs {
		k := strings.TrimPrefix(r.DatabaseKey(), s.ns)
		if !strings.HasPrefix(r.DatabaseKey(), s.ns) {
			s.fail(t, "%s: query (prefix %q) returned key %q outside the key prefix", what, q.prefix, r.DatabaseKey())
		}
		got[k]++
		if got[k] > 1 {
			s.fail(t, "%s: query (prefix %q, where %s) returned key %q twice", what, q.prefix, q.c, k)
		}
		if !must[k] && !may[k] {
			why := "does not satisfy the condition"
			mr := s.m.recs[k]
			switch {
			case mr == nil:
				why = "was never stored"
			case mr.deleted:
				why = "is deleted"
			case mr.expired():
				why = "is expired"
			case !strings.HasPrefix(k, q.prefix):
				why = "does not start with the query's key prefix"
			}
			s.fail(t, "%s: query (prefix %q, where %s) returned key %q, which %s; expected keys %s", what, q.prefix, q.c, k, why, renderSet(must))
		}
		if cerr := checkRecord(what+": query result "+k, r, s.ns+k, s.m.recs[k], s.cfg.be.serializes()); cerr != nil {
			s.fail(t, "%v", cerr)
		}
	}
	for k := range must {
		if got[k] == 0 {
			s.fail(t, "%s: query (prefix %q, where %s) did not return key %q (stored: %s); returned %s", what, q.prefix, q.c, k, s.m.recs[k].val, renderCount(got))
		}
	}
}

func renderSet(m map[string]bool) string {
	var ks []string
	for k := range m {
		ks = append(ks, k)
	}
	sort.Strings(ks)
	return renderKeys(ks)
}

func renderCount(m map[string]int) string {
	var ks []string
	for k := range m {
		ks = append(ks, k)
	}
	sort.Strings(ks)
	return renderKeys(ks)
}

func (s *machine) actQuery(t *rapid.T) {
	s.needClean(t)
	q := s.drawQuery(t)
	s.logf("Query prefix=%q where %s", q.prefix, q.c)
	s.runQuery(t, q, "action")
	if q.nonBoundary {
		s.queryNonBoundary = true
	}
	if q.c != nil {
		s.queryCond = true
		if q.c.depth() >= 2 {
			s.queryDepth2 = true
		}
		if q.c.usesNested() {
			s.nestedQuery = true
		}
	}
}

func (s *machine) actPurge(t *rapid.T) {
	s.needClean(t)
	q := s.drawQuery(t)
	must, may := s.expected(q)
	if len(may) > 0 {
		// the effect on records without field access under a negated condition is
		// not documented: leave this purge out
		stats.Class("purge_skipped_undocumented")
		t.Skip("purge with undocumented outcome")
	}
	pq := query.New(s.dbName + ":" + s.ns + q.prefix)
	if q.c != nil {
		pq = pq.Where(q.c.toQuery())
	}
	s.logf("Purge prefix=%q where %s", q.prefix, q.c)
	_, err := s.db.Purge(context.Background(), pq)
	if !s.cfg.be.hasPurger() {
		if !errors.Is(err, database.ErrNotImplemented) {
			s.fail(t, "Purge on %s returned %v, want not-implemented", s.cfg.be, err)
		}
		s.purgeNotImpl = true
		s.afterBypass()
		return
	}
	if err != nil {
		s.fail(t, "Purge(prefix %q, where %s) failed: %v", q.prefix, q.c, err)
	}
	for k := range must {
		nm := *s.m.recs[k]
		nm.deleted = true
		s.m.recs[k] = &nm
		s.deletedKeys[k] = true
		s.hadDelete = true
	}
	s.afterBypass()
	s.purged = true
}

func (s *machine) actMaintain(t *rapid.T) {
	s.needClean(t)
	// the three maintenance entry points; Maintain and MaintainThorough are the storage's own housekeeping
	switch which := rapid.SampledFrom([]string{"MaintainRecordStates", "MaintainRecordStates", "Maintain", "MaintainThorough", "all"}).Draw(t, "maintenance"); which {
	case "Maintain":
		s.logf("Maintain")
		if err := database.Maintain(context.Background()); err != nil && !errors.Is(err, database.ErrNotImplemented) {
			s.fail(t, "Maintain failed: %v", err)
		}
	case "MaintainThorough":
		s.logf("MaintainThorough")
		if err := database.MaintainThorough(context.Background()); err != nil && !errors.Is(err, database.ErrNotImplemented) {
			s.fail(t, "MaintainThorough failed: %v", err)
		}
	default:
		if which == "all" {
			s.logf("Maintain, MaintainThorough")
			if err := database.Maintain(context.Background()); err != nil && !errors.Is(err, database.ErrNotImplemented) {
				s.fail(t, "Maintain failed: %v", err)
			}
			if err := database.MaintainThorough(context.Background()); err != nil && !errors.Is(err, database.ErrNotImplemented) {
				s.fail(t, "MaintainThorough failed: %v", err)
			}
		}
		s.logf("MaintainRecordStates")
		if err := database.MaintainRecordStates(context.Background()); err != nil && !errors.Is(err, database.ErrNotImplemented) {
			s.fail(t, "MaintainRecordStates failed: %v", err)
		}
	}
	// physically removed only what is deleted or expired: every visible record is
	// still in the raw storage
	for _, k := range s.m.visibleKeys() {
		if _, err := s.h.inner.Get(s.ns + k); err != nil {
			s.fail(t, "after maintenance the raw storage no longer holds the visible record %q: %v", k, err)
		}
	}
	s.hadMaint = true
	if s.hadDelete || s.hadExpiry {
		s.maintAfterDelete = true
	}
}

// actBulk stores many records under the prefix "bulk/" in one batch (several B-tree
// pages in bbolt), purges a large part of them by condition (more than 1000 in
// the thorough tier: bbolt purges in transactions of 1000), runs maintenance and
// removes the rest. Every stage is compared with the model through a query.
func (s *machine) actBulk(t *rapid.T) {
	if !s.bulkAllowed || s.bulkDone {
		t.Skip("no bulk in this case")
	}
	s.needClean(t)
	s.bulkDone = true
	sizes := []int{30, 120, 2300} // a purge of more than 1000 records runs in several transactions
	if stats.Thorough() {
		sizes = []int{120, 1100, 1500, 2300}
	}
	n := rapid.SampledFrom(sizes).Draw(t, "bulkSize")
	s.logf("Bulk: PutMany of %d records bulk/00000..; i%%5==0 expired, i%%5==1 expiring 2100", n)
	put := s.db.PutMany(s.dbName)
	type item struct {
		key string
		v   value
		p   preset
	}
	items := make([]item, n)
	t0 := nowUnix()
	for i := 0; i < n; i++ {
		it := item{key: fmt.Sprintf("bulk/%05d", i), p: preset{kind: "none"}}
		it.v = encodeValue(reprTyped, content{I: int64(i), S: fmt.Sprintf("s%d", i%7), B: i%2 == 0, Tags: []string{}}, nil, nil)
		switch i % 5 {
		case 0:
			it.p = preset{kind: "past", abs: farPast2}
		case 1:
			it.p = preset{kind: "future", abs: farFuture1}
		}
		r := newRecord(s.full(it.key), it.v)
		it.p.apply(r)
		if err := put(r); err != nil {
			s.fail(t, "bulk PutMany put(%s) failed: %v", it.key, err)
		}
		items[i] = it
	}
	if err := put(nil); err != nil {
		s.fail(t, "bulk PutMany finish failed: %v", err)
	}
	t1 := nowUnix()
	for _, it := range items {
		s.m.recs[it.key] = storedFresh(it.v, it.p, t0, t1, false)
	}
	s.hadExpiry = true
	s.afterBypass()
	s.batchPut = true

	third := int64(n / 3)
	sel := &cond{kind: cLeaf, sel: "I", op: query.GreaterThanOrEqual, i: third, arg: third}
	s.logf("Bulk: Query prefix=\"bulk/\" where %s", sel)
	s.runQuery(t, drawnQuery{prefix: "bulk/", c: sel}, "bulk")

	if s.cfg.be.hasPurger() {
		s.logf("Bulk: Purge prefix=\"bulk/\" where %s", sel)
		q := drawnQuery{prefix: "bulk/", c: sel}
		must, _ := s.expected(q)
		cnt, err := s.db.Purge(context.Background(), query.New(s.dbName+":"+s.ns+"bulk/").Where(sel.toQuery()))
		if err != nil {
			s.fail(t, "bulk Purge failed after %d deletes: %v", cnt, err)
		}
		for k := range must {
			nm := *s.m.recs[k]
			nm.deleted = true
			s.m.recs[k] = &nm
		}
		s.hadDelete = true
		s.purged = true
		if len(must) > 1000 {
			s.bulkPurge1000 = true
		}
		s.afterBypass()
		s.runQuery(t, drawnQuery{prefix: "bulk/"}, "bulk after purge")
	}

	s.logf("Bulk: MaintainRecordStates")
	if err := database.MaintainRecordStates(context.Background()); err != nil {
		s.fail(t, "MaintainRecordStates failed: %v", err)
	}
	for _, k := range s.m.visibleKeys() {
		if _, err := s.h.inner.Get(s.ns + k); err != nil {
			s.fail(t, "after maintenance the raw storage no longer holds the visible record %q: %v", k, err)
		}
	}
	s.hadMaint = true
	s.maintAfterDelete = true
	s.runQuery(t, drawnQuery{prefix: "bulk"}, "bulk after maintenance")

	// remove the rest
	if s.cfg.be.hasPurger() {
		s.logf("Bulk: Purge prefix=\"bulk/\"")
		if _, err := s.db.Purge(context.Background(), query.New(s.dbName+":"+s.ns+"bulk/")); err != nil {
			s.fail(t, "bulk Purge of the rest failed: %v", err)
		}
		s.afterBypass()
	} else {
		s.logf("Bulk: Delete every remaining bulk record")
		for _, it := range items {
			if s.m.recs[it.key].visible() {
				if err := s.db.Delete(s.full(it.key)); err != nil {
					s.fail(t, "Delete(%s) failed: %v", it.key, err)
				}
			}
		}
	}
	for _, it := range items {
		nm := *s.m.recs[it.key]
		nm.deleted = true
		s.m.recs[it.key] = &nm
	}
	s.runQuery(t, drawnQuery{prefix: "bulk/"}, "bulk after removal")
}

func (s *machine) actFlush(t *rapid.T) {
	if s.cfg.cache != cacheDelayed {
		t.Skip("no delayed writes")
	}
	s.flush(t, "action")
}

func (s *machine) actClearCache(t *rapid.T) {
	// Only where it is safe by the documentation: a pure read cache can be dropped
	// at any time; with delayed writes only when nothing is pending.
	if s.cfg.cache == cacheNone {
		t.Skip("no cache")
	}
	s.needClean(t)
	s.logf("ClearCache")
	s.db.ClearCache()
}

// check is the invariant run after every action.
func (s *machine) check(t *rapid.T) {
	s.steps++
	// point reads of a drawn part of the key space (reading everything after every
	// step would keep the cache permanently warm)
	switch rapid.IntRange(0, 3).Draw(t, "probe") {
	case 0:
	case 1:
		k := rapid.SampledFrom(s.pool).Draw(t, "probeKey")
		s.logf("  probe Get %s", k)
		s.checkGet(t, k, "probe")
	default:
		if rapid.IntRange(0, 2).Draw(t, "probeAll") == 0 {
			s.logf("  probe Get all")
			for _, k := range s.pool {
				s.checkGet(t, k, "probe")
			}
		}
	}
	// the complete visible set, through a query without condition
	if s.cfg.cache == cacheDelayed && s.dirty {
		return // queries are only covered after a flush
	}
	s.runQuery(t, drawnQuery{}, "full scan")
}

func (s *machine) final(t *rapid.T) {
	if s.stopBG != nil {
		s.logf("stop DelayedCacheWriter")
		s.stopBG()
		s.stopBG = nil
	}
	s.needClean(t)
	s.logf("final check")
	for _, k := range s.pool {
		s.checkGet(t, k, "final")
	}
	s.runQuery(t, drawnQuery{}, "final full scan")
}

func (s *machine) actions() map[string]func(*rapid.T) {
	a := map[string]func(*rapid.T){"": s.guard(s.check)}
	add := func(name string, weight int, f func(*rapid.T)) {
		for i := 0; i < weight; i++ {
			a[fmt.Sprintf("%s#%d", name, i)] = s.guard(f)
		}
	}
	add("put", 4, func(t *rapid.T) { s.actPut(t, false) })
	add("putnew", 1, func(t *rapid.T) { s.actPut(t, true) })
	add("update", 2, s.actUpdate)
	add("get", 2, s.actGet)
	add("exists", 1, s.actExists)
	add("delete", 3, s.actDelete)
	add("setabs", 2, s.actSetAbs)
	add("setrel", 1, s.actSetRel)
	add("putmany", 1, s.actPutMany)
	add("purge", 1, s.actPurge)
	add("maintain", 2, s.actMaintain)
	add("query", 4, s.actQuery)
	if s.cfg.cache == cacheDelayed {
		add("flush", 1, s.actFlush)
	}
	if s.cfg.cache != cacheNone {
		add("clearcache", 1, s.actClearCache)
	}
	if s.bulkAllowed {
		add("bulk", 2, s.actBulk)
	}
	return a
}

// record the case in the evidence
func (s *machine) account() {
	if s.abandoned {
		return
	}
	cfg := s.cfg.String()
	nontrivial := s.readAfterDelete || s.readAfterExpiry || s.queryNonBoundary || s.queryCond ||
		((s.hadDelete || s.hadExpiry || s.hadMaint) && s.steps > 1)
	classes := []string{"config " + cfg}
	addIf := func(b bool, c string) {
		if b {
			classes = append(classes, c)
		}
	}
	addIf(s.readAfterDelete, "read_after_delete")
	addIf(s.readAfterExpiry, "read_after_expiry")
	addIf(s.queryNonBoundary, "query_nonboundary_prefix")
	addIf(s.queryCond, "query_with_condition")
	addIf(s.queryDepth2, "query_condition_depth_ge2")
	addIf(s.nestedQuery, "query_nested_selector")
	addIf(s.maintAfterDelete, "maintenance_after_delete_or_expiry")
	addIf(s.hadMaint, "maintenance")
	addIf(s.batchPut, "batch_put")
	addIf(s.purged, "purge")
	addIf(s.purgeNotImpl, "purge_not_implemented")
	addIf(s.updated, "update_via_get")
	addIf(s.evictionLikely, "cache_smaller_than_keyspace")
	addIf(s.steps >= 20, "history_ge_20_steps")
	addIf(s.bulkDone, "bulk_batch")
	addIf(s.bulkPurge1000, "purge_gt_1000")
	stats.Case(cfg+"|"+strings.Join(s.hist, "|"), nontrivial, classes...)
	if nontrivial && stats.WantSample(cfg) {
		h := s.hist
		if len(h) > 14 {
			h = append(append([]string{}, h[:14]...), fmt.Sprintf("... %d more", len(s.hist)-14))
		}
		stats.Sample(cfg, map[string]any{"config": cfg, "history": h})
	}
}

func runCase(t *rapid.T, cfg config) {
	s := newMachine(t, cfg)
	defer s.close()
	defer s.account()
	t.Repeat(s.actions())
	s.guard(s.final)(t)
	if s.abandoned {
		t.Skip("case abandoned: stall timeout")
	}
}
