//go:build !verif

package c02

// Without the verif build tag the yield point of Iterator.Finish does not exist;
// the error hand-over tests are not compiled.
func installHooks() {}
