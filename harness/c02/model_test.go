package c02

import (
	"bytes"
	"errors"
	"fmt"
	"sort"
	"strings"
	"time"

	"github.com/safing/portbase/database/record"
	"github.com/safing/portbase/formats/dsd"
)

// Expiry times are only ever "far past" or "far future" relative to any wall
// clock this code will see, so the clock cannot flip a verdict inside a case.
const (
	farPast1   int64 = 1          // 1970
	farPast2   int64 = 1000000000 // 2001
	farFuture1 int64 = 4102444800 // 2100
	farFuture2 int64 = 1 << 40    // ~ year 36812
	relTTLMin  int64 = 3600
)

func isPast(exp int64) bool { return exp > 0 && exp <= farPast2 }

type ival struct{ lo, hi int64 }

func (i ival) has(x int64) bool { return x >= i.lo && x <= i.hi }
func (i ival) String() string   { return fmt.Sprintf("[%d,%d]", i.lo, i.hi) }

// mrec is the reference state of one key.
type mrec struct {
	val      value
	created  ival
	modified ival
	// Acceptable values of Meta.Expires: any of these intervals.
	expires []ival
	relTTL  int64 // relative expiry (seconds) carried by the record, 0 = none
	deleted bool
	secret  bool
	crown   bool
}

func (m *mrec) expired() bool {
	// every acceptable expiry value has the same visibility by construction
	for _, e := range m.expires {
		if isPast(e.lo) {
			return true
		}
	}
	return false
}

func (m *mrec) visible() bool { return m != nil && !m.deleted && !m.expired() }

type model struct {
	recs map[string]*mrec // by database key (without namespace)
}

func newModel() *model { return &model{recs: map[string]*mrec{}} }

func (m *model) visibleKeys() []string {
	var out []string
	for k, r := range m.recs {
		if r.visible() {
			out = append(out, k)
		}
	}
	sort.Strings(out)
	return out
}

// ---------------------------------------------------------------- comparison

// checkRecord compares a record handed out by portbase with the model entry.
func checkRecord(what string, got record.Record, wantKey string, want *mrec, serializes bool) error {
	if got == nil {
		return fmt.Errorf("%s: nil record", what)
	}
	if got.DatabaseKey() != wantKey {
		return fmt.Errorf("%s: record has key %q, want %q", what, got.DatabaseKey(), wantKey)
	}
	got.Lock()
	defer got.Unlock()

	// data
	switch r := got.(type) {
	case *Rec:
		if want.val.repr != reprTyped {
			return fmt.Errorf("%s: got a typed record, stored was %s", what, want.val)
		}
		if c := r.content(); !c.equal(want.val.c) {
			return fmt.Errorf("%s: data %s, most recently stored %s", what, c, want.val.c)
		}
	case *record.Wrapper:
		if want.val.repr == reprTyped {
			if r.Format != dsd.JSON {
				return fmt.Errorf("%s: typed record came back in format %d, want JSON", what, r.Format)
			}
			back := &Rec{}
			if err := dsd.LoadAsFormat(r.Data, r.Format, back); err != nil {
				return fmt.Errorf("%s: stored typed record does not decode: %v (data %q)", what, err, r.Data)
			}
			if back.Tags == nil {
				back.Tags = []string{}
			}
			if c := back.content(); !c.equal(want.val.c) {
				return fmt.Errorf("%s: data %s, most recently stored %s", what, c, want.val.c)
			}
		} else {
			if r.Format != want.val.repr.format() {
				return fmt.Errorf("%s: wrapper format %d, stored %d", what, r.Format, want.val.repr.format())
			}
			if !bytes.Equal(r.Data, want.val.data) {
				return fmt.Errorf("%s: wrapper data %q, most recently stored %q", what, r.Data, want.val.data)
			}
		}
	default:
		return fmt.Errorf("%s: unexpected record type %T", what, got)
	}

	// metadata
	m := got.Meta()
	if m == nil {
		return fmt.Errorf("%s: record without metadata", what)
	}
	if m.Deleted > 0 {
		return fmt.Errorf("%s: handed out a record that is marked deleted (Deleted=%d)", what, m.Deleted)
	}
	if !want.created.has(m.Created) {
		return fmt.Errorf("%s: Created=%d, want within %s", what, m.Created, want.created)
	}
	if !want.modified.has(m.Modified) {
		return fmt.Errorf("%s: Modified=%d, want within %s", what, m.Modified, want.modified)
	}
	okExp := false
	for _, e := range want.expires {
		if e.has(m.Expires) {
			okExp = true
		}
	}
	if !okExp {
		return fmt.Errorf("%s: Expires=%d, want one of %v", what, m.Expires, want.expires)
	}
	if want.relTTL > 0 && m.Deleted != -want.relTTL {
		return fmt.Errorf("%s: relative expiry %d, stored %d", what, -m.Deleted, want.relTTL)
	}
	if want.relTTL == 0 && m.Deleted != 0 {
		return fmt.Errorf("%s: Deleted=%d, want 0", what, m.Deleted)
	}
	if secret := !m.CheckPermission(true, false); secret != want.secret {
		return fmt.Errorf("%s: secret flag %v, stored %v", what, secret, want.secret)
	}
	if crown := !m.CheckPermission(false, true); crown != want.crown {
		return fmt.Errorf("%s: crown-jewel flag %v, stored %v", what, crown, want.crown)
	}
	_ = serializes
	return nil
}

func nowUnix() int64 { return time.Now().Unix() }

// errClass maps an error to the classes the statement distinguishes.
func errClass(err error, notFound, notImpl error) string {
	switch {
	case err == nil:
		return "nil"
	case errors.Is(err, notFound):
		return "not-found"
	case errors.Is(err, notImpl):
		return "not-implemented"
	default:
		return "error(" + err.Error() + ")"
	}
}

func renderKeys(ks []string) string { return "[" + strings.Join(ks, " ") + "]" }
