//go:build verif

package c02

import (
	"fmt"
	"os"
	"path/filepath"
	"sync/atomic"
	"testing"

	"github.com/safing/portbase/database"
	"github.com/safing/portbase/database/iterator"
	"github.com/safing/portbase/database/query"
	"github.com/safing/portbase/database/record"
	"pgregory.net/rapid"

	"verifharness/internal/stats"
)

// Error hand-over: "a storage error during the query is reported to the consumer
// once the result stream has ended". The consumer drains Iterator.Next to its
// close and then reads Err(). The yield point iterator.finish (between the two
// halves of Iterator.Finish) parks the producer there, so both orders of "close
// the stream" and "store the error" are decided instead of sampled:
//   - if the stream is closed while the producer is parked, the consumer reads
//     Err() right then;
//   - if the stream is still open, the producer is released and the consumer
//     reads Err() after the close.
// No timer is involved: the consumer waits for either a record or the arrival of
// the producer at the yield point.

type pauser struct {
	arrived chan struct{}
	release chan struct{}
}

var curPause atomic.Pointer[pauser]

func installHooks() {
	iterator.VerifHook = func(name string) {
		if name != "iterator.finish" {
			return
		}
		p := curPause.Load()
		if p == nil || !curPause.CompareAndSwap(p, nil) {
			return
		}
		close(p.arrived)
		<-p.release
	}
}

var (
	faultyDBName string
	faultyDB     *faultyStorage
)

type fataler interface {
	Fatalf(format string, args ...any)
}

func faultyDatabase(t fataler) *faultyStorage {
	if faultyDB != nil {
		return faultyDB
	}
	faultyDBName = freshName("c02faulty")
	if _, err := database.Register(&database.Database{Name: faultyDBName, Description: "c02 injected failing storage", StorageType: "c02faulty"}); err != nil {
		t.Fatalf("harness: register faulty database: %v", err)
	}
	probe := database.NewInterface(&database.Options{Local: true, Internal: true})
	if _, err := probe.Exists(faultyDBName + ":x"); err != nil {
		t.Fatalf("harness: start faulty database: %v", err)
	}
	faultyMu.Lock()
	faultyDB = faultyInstances[faultyDBName]
	faultyMu.Unlock()
	return faultyDB
}

type handoverResult struct {
	records       []record.Record
	err           error
	closedAtPoint bool // the stream had ended while the producer was parked at the yield point
	parked        bool
}

// consume runs the query and drains it; with pause the producer is parked at the
// yield point of Finish.
func consume(t fataler, db *database.Interface, q *query.Query, pause bool) handoverResult {
	var res handoverResult
	var p *pauser
	if pause {
		p = &pauser{arrived: make(chan struct{}), release: make(chan struct{})}
		curPause.Store(p)
		released := false
		defer func() {
			curPause.CompareAndSwap(p, nil)
			if !released {
				close(p.release)
			}
		}()
		it, err := db.Query(q)
		if err != nil {
			t.Fatalf("Query failed: %v", err)
		}
		ended := false
	wait:
		for {
			select {
			case r, ok := <-it.Next:
				if !ok {
					ended = true
					break wait
				}
				res.records = append(res.records, r)
			case <-p.arrived:
				res.parked = true
				break wait
			}
		}
		if !ended {
			// producer parked: take what is buffered, without blocking
		drain:
			for {
				select {
				case r, ok := <-it.Next:
					if !ok {
						ended = true
						break drain
					}
					res.records = append(res.records, r)
				default:
					break drain
				}
			}
		} else {
			// the close was seen first; the producer is parked right behind it (or about to be)
			<-p.arrived
			res.parked = true
		}
		if ended {
			// the consumer has seen the end of the stream: this is the moment the
			// statement speaks about
			res.closedAtPoint = true
			res.err = it.Err()
			released = true
			close(p.release)
			return res
		}
		released = true
		close(p.release)
		for r := range it.Next {
			res.records = append(res.records, r)
		}
		res.err = it.Err()
		return res
	}
	it, err := db.Query(q)
	if err != nil {
		t.Fatalf("Query failed: %v", err)
	}
	for r := range it.Next {
		res.records = append(res.records, r)
	}
	res.err = it.Err()
	return res
}

func TestPropErrorHandoverInjected(t *testing.T) {
	rapid.Check(t, func(t *rapid.T) {
		f := faultyDatabase(t)
		n := rapid.IntRange(0, 25).Draw(t, "records")
		withErr := rapid.IntRange(0, 4).Draw(t, "withError") != 0
		pause := rapid.IntRange(0, 3).Draw(t, "pause") != 0
		recs := make([]record.Record, n)
		for i := range recs {
			recs[i] = newRecord(fmt.Sprintf("%s:k%02d", faultyDBName, i), encodeValue(reprTyped, content{I: int64(i), Tags: []string{}}, nil, nil))
			recs[i].UpdateMeta()
		}
		var perr error
		if withErr {
			perr = errInjected
		}
		f.plan(recs, perr)
		db := database.NewInterface(&database.Options{Local: true, Internal: true})
		res := consume(t, db, query.New(faultyDBName+":"), pause)
		if len(res.records) != n {
			t.Fatalf("VIOLATION: storage streamed %d records, consumer received %d", n, len(res.records))
		}
		if withErr && res.err == nil {
			t.Fatalf("VIOLATION: the storage finished the query with an error after %d records; the consumer drained the stream to its end and Err() returned nil (stream end observed while the producer was inside Finish: %v)", n, res.closedAtPoint)
		}
		if !withErr && res.err != nil {
			t.Fatalf("VIOLATION: query without storage error reported %v", res.err)
		}
		cls := "handover_free_running"
		if pause {
			cls = "handover_stream_open_at_point"
			if res.closedAtPoint {
				cls = "handover_stream_closed_at_point"
			}
		}
		stats.Case(fmt.Sprintf("handover|inj|%d|%v|%v", n, withErr, pause), withErr, "config handover/injected", cls)
		if stats.WantSample("handover") {
			stats.Sample("handover", map[string]any{"records": n, "storage_error": withErr, "producer_parked_in_Finish": pause, "stream_closed_at_yield_point": res.closedAtPoint})
		}
	})
}

// TestPropErrorHandoverFSTree uses the real file-tree executor: an undecodable
// file in the tree makes the walk fail.
func TestPropErrorHandoverFSTree(t *testing.T) {
	rapid.Check(t, func(t *rapid.T) {
		h, err := openDB(freshName("c02"), beFSTree, false)
		if err != nil {
			t.Fatalf("harness: %v", err)
		}
		defer h.retire()
		db := database.NewInterface(&database.Options{Local: true, Internal: true})
		pool := genKeyPool(t, true)
		stored := map[string]bool{}
		for _, k := range pool {
			if rapid.Bool().Draw(t, "store") {
				r := newRecord(h.name+":"+k, encodeValue(reprTyped, genContent(t), nil, nil))
				if err := db.Put(r); err != nil {
					t.Fatalf("Put(%s): %v", k, err)
				}
				stored[k] = true
			}
		}
		// an undecodable file that is not a key of the pool and does not collide with
		// any of its directories
		name := rapid.SampledFrom([]string{"0corrupt", "a0corrupt", "zcorrupt", "ä~corrupt"}).Draw(t, "corruptName")
		body := rapid.SampledFrom([][]byte{{}, {2}, {1, 0xff}, {1, 3, 1, 2}, []byte("garbage")}).Draw(t, "corruptBody")
		if err := os.WriteFile(filepath.Join(h.location, name), body, 0o644); err != nil {
			t.Fatalf("harness: %v", err)
		}
		pause := rapid.IntRange(0, 3).Draw(t, "pause") != 0
		res := consume(t, db, query.New(h.name+":"), pause)
		for _, r := range res.records {
			if !stored[r.DatabaseKey()] {
				t.Fatalf("VIOLATION: query returned key %q which was never stored", r.DatabaseKey())
			}
		}
		if res.err == nil {
			t.Fatalf("VIOLATION: the file tree contains the undecodable file %q (% x); the query returned %d of %d records, the stream ended and Err() returned nil (stream end observed while the producer was inside Finish: %v)", name, body, len(res.records), len(stored), res.closedAtPoint)
		}
		cls := "handover_free_running"
		if pause {
			cls = "handover_stream_open_at_point"
			if res.closedAtPoint {
				cls = "handover_stream_closed_at_point"
			}
		}
		stats.Case(fmt.Sprintf("handover|fstree|%v|%s|%x|%v", pool, name, body, pause), true, "config handover/fstree", cls)
	})
}

// ---------------------------------------------------------------- regression (fixed finding)

// Iterator.Finish closed the stream before it stored the error: a consumer that
// had drained Next could read Err() == nil. Decided with the producer parked
// between the two halves of Finish.
func TestRegIteratorErrorVisibleAtStreamEnd(t *testing.T) {
	f := faultyDatabase(t)
	for _, n := range []int{0, 1, 10, 11, 25} {
		recs := make([]record.Record, n)
		for i := range recs {
			recs[i] = newRecord(fmt.Sprintf("%s:k%02d", faultyDBName, i), encodeValue(reprTyped, content{I: int64(i), Tags: []string{}}, nil, nil))
			recs[i].UpdateMeta()
		}
		f.plan(recs, errInjected)
		db := database.NewInterface(&database.Options{Local: true, Internal: true})
		for _, pause := range []bool{true, false} {
			res := consume(t, db, query.New(faultyDBName+":"), pause)
			if len(res.records) != n {
				t.Fatalf("streamed %d records, received %d", n, len(res.records))
			}
			if res.err == nil {
				t.Fatalf("storage error after %d records: stream ended and Err() is nil (producer parked in Finish: %v)", n, pause)
			}
		}
	}
}
