package c02

import (
	"context"
	"errors"
	"fmt"
	"testing"
	"time"

	"github.com/safing/portbase/database"
	"github.com/safing/portbase/database/query"
	"pgregory.net/rapid"

	"verifharness/internal/stats"
)

// The second in which a record expires. "Maintenance physically removes only
// records that are deleted or expired and never changes what is visible": reads
// and maintenance have to agree on the moment from which a record counts as
// expired. The machines only use expiry times far in the past or the future, so
// the two never meet there.
//
// A record gets an absolute expiry one to two seconds ahead. The test waits for
// that second and then observes: get + unconditional query, record-state
// maintenance, get + query again - and reads the clock before and after. Only
// if both clock readings show the expiry second is there a verdict: what was
// visible before the maintenance is visible after it. (No verdict about which
// of the two answers is right at that second; a case in which the second ticked
// over is counted as such.)

func TestPropMaintenanceAtExpirySecond(t *testing.T) {
	rapid.Check(t, func(t *rapid.T) {
		be := rapid.SampledFrom([]backend{beHashmap, beHashmap, beBBolt, beFSTree, beBadger}).Draw(t, "backend")
		shadow := rapid.Bool().Draw(t, "shadow")
		h, err := openDB(freshName("c02"), be, shadow)
		if err != nil {
			t.Fatalf("harness: %v", err)
		}
		defer h.retire()
		db := database.NewInterface(&database.Options{Local: true, Internal: true})
		n := rapid.IntRange(1, 4).Draw(t, "expiring_records")
		exp := time.Now().Unix() + 2
		var keys []string
		for i := 0; i < n; i++ {
			k := fmt.Sprintf("%s:e%d", h.name, i)
			r := newRecord(k, encodeValue(reprTyped, content{S: "x", I: int64(i)}, nil, nil))
			r.CreateMeta()
			r.Meta().SetAbsoluteExpiry(exp)
			if err := db.Put(r); err != nil {
				t.Fatalf("Put(%s): %v", k, err)
			}
			keys = append(keys, k)
		}
		keep := h.name + ":keep"
		if err := db.Put(newRecord(keep, encodeValue(reprTyped, content{S: "keep"}, nil, nil))); err != nil {
			t.Fatalf("Put(%s): %v", keep, err)
		}
		observe := func() (map[string]bool, string) {
			vis := map[string]bool{}
			for _, k := range append([]string{keep}, keys...) {
				_, err := db.Get(k)
				switch {
				case err == nil:
					vis["get "+k] = true
				case errors.Is(err, database.ErrNotFound):
				default:
					t.Fatalf("Get(%s) failed: %v", k, err)
				}
			}
			it, err := db.Query(query.New(h.name + ":"))
			if err != nil {
				t.Fatalf("Query failed: %v", err)
			}
			for r := range it.Next {
				vis["query "+r.Key()] = true
			}
			if err := it.Err(); err != nil {
				t.Fatalf("query failed: %v", err)
			}
			return vis, fmt.Sprint(vis)
		}
		for time.Now().Unix() < exp {
			time.Sleep(2 * time.Millisecond)
		}
		t0 := time.Now().Unix()
		before, beforeS := observe()
		if err := database.MaintainRecordStates(context.Background()); err != nil && !errors.Is(err, database.ErrNotImplemented) {
			t.Fatalf("MaintainRecordStates failed: %v", err)
		}
		after, afterS := observe()
		t1 := time.Now().Unix()
		if t0 != exp || t1 != exp {
			stats.Case(fmt.Sprintf("boundary|%s|%v|%d", be.storageType(), shadow, n), false, "expiry_second_missed_no_verdict")
			return
		}
		for k := range before {
			if !after[k] {
				t.Fatalf("VIOLATION: %s (shadow delete %v): in the second in which %d records expire (clock read before and after), record-state maintenance changed what is visible: before %s, after %s", be.storageType(), shadow, n, beforeS, afterS)
			}
		}
		for k := range after {
			if !before[k] {
				t.Fatalf("VIOLATION: %s (shadow delete %v): in the second in which %d records expire, record-state maintenance made something visible: before %s, after %s", be.storageType(), shadow, n, beforeS, afterS)
			}
		}
		if !after["get "+keep] || !after["query "+keep] {
			t.Fatalf("VIOLATION: the record without expiry is not visible: %s", afterS)
		}
		cls := "expiring_records_visible_in_their_expiry_second"
		if !before["get "+keys[0]] {
			cls = "expiring_records_invisible_in_their_expiry_second"
		}
		stats.Case(fmt.Sprintf("boundary|%s|%v|%d", be.storageType(), shadow, n), true, "config boundary/"+be.storageType(), "maintenance_in_the_expiry_second", cls)
		if stats.WantSample("boundary") {
			stats.Sample("boundary", map[string]any{"backend": be.storageType(), "shadow_delete": shadow, "visible_before": beforeS, "visible_after": afterS})
		}
	})
}
