"""Sensitivity mutants of the C02 check (see NOTES.md). Usage: python3 mutants_run.py [MUTANT...]
Applies one textual mutation at a time to the scratch copy REPO, runs ./check C02 (quick tier), prints rc and the
first violation, and reverts with git checkout. All 24 must print rc=1. Needs a clean working tree in REPO."""
import subprocess, sys, os, time
REPO='/dev/shm/repo-b4'
def rep(path, old, new, count=1):
    p=os.path.join(REPO,path); s=open(p).read()
    assert s.count(old)>=1, (path, old)
    open(p,'w').write(s.replace(old,new,count))
M={
 'M01_bbolt_query_no_validity': lambda: rep('database/storage/bbolt/bbolt.go', "			if !iterWrapper.Meta().CheckValidity() {\n				continue\n			}\n", ""),
 'M02_hashmap_query_no_prefix': lambda: rep('database/storage/hashmap/map.go', "		if !q.MatchesKey(key) ||\n			!q.MatchesRecord(record) ||", "		if (false && !q.MatchesKey(key)) ||\n			!q.MatchesRecord(record) ||"),
 'M03_hashmap_maint_deletes_future': lambda: rep('database/storage/hashmap/map.go', "case meta.Deleted == 0 && meta.Expires > 0 && meta.Expires < now:", "case meta.Deleted == 0 && meta.Expires > 0 && meta.Expires > now:"),
 'M04_put_does_not_update_cache': lambda: rep('database/interface_cache.go', "	// Check if record should be deleted\n	if remove {", "	if write && i.options.DelayCachedWrites == \"\" {\n		return false\n	}\n\n	// Check if record should be deleted\n	if remove {"),
 'M05_bbolt_purge_shadow_forgets_deleted': lambda: rep('database/storage/bbolt/bbolt.go', "					wrapper.Meta().Delete()\n", ""),
 'M06_struct_accessor_bool_negated': lambda: rep('database/accessor/accessor-struct.go', "	return field.Bool(), true", "	return !field.Bool(), true"),
 'M07_fstree_no_prefix_test': lambda: rep('database/storage/fstree/fstree.go', "		if !q.MatchesKey(key) {\n			return nil\n		}\n", ""),
 'M08_badger_query_no_validity': lambda: rep('database/storage/badger/badger.go', "			if !r.Meta().CheckValidity() {\n				continue\n			}\n", ""),
 'M09_bbolt_maint_deletes_live': lambda: rep('database/storage/bbolt/bbolt.go', "			case meta.Deleted > 0 && (!shadowDelete || meta.Deleted < purgeThreshold):\n				// delete from storage\n				err = c.Delete()", "			case meta.Deleted >= 0 && (!shadowDelete || meta.Deleted < purgeThreshold):\n				// delete from storage\n				err = c.Delete()"),
 'M10_json_accessor_int_via_float': lambda: rep('database/accessor/accessor-json-bytes.go', "	return result.Int(), true", "	return int64(result.Float()), true"),
 'M11_putnew_no_reset': lambda: rep('database/interface.go', "	if r.Meta() != nil {\n		r.Meta().Reset()\n	}\n", ""),
 'M12_evict_handler_drops_write': lambda: rep('database/interface_cache.go', "	err = db.Put(r)\n	if err != nil {\n		log.Warningf(\"database: failed to write evicted cache entry %q to database: %s\", key, err)\n	}", "	_ = db"),
 'M13_iterator_finish_close_first': lambda: (rep('database/iterator/iterator.go', "	it.errLock.Lock()\n	it.err = err\n	it.errLock.Unlock()\n	verifPoint(\"iterator.finish\")\n\n	close(it.Next)\n	if it.doneClosed.SetToIf(false, true) {\n		close(it.Done)\n	}\n", "	close(it.Next)\n	if it.doneClosed.SetToIf(false, true) {\n		close(it.Done)\n	}\n	verifPoint(\"iterator.finish\")\n	it.errLock.Lock()\n	it.err = err\n	it.errLock.Unlock()\n")),
 'M14_hashmap_batch_ignores_order': lambda: rep('database/storage/hashmap/map.go', "	if !shadowDelete && r.Meta().IsDeleted() {\n		delete(hm.db, r.DatabaseKey())\n	} else {\n		hm.db[r.DatabaseKey()] = r\n	}", "	if _, exists := hm.db[r.DatabaseKey()]; !exists {\n		hm.db[r.DatabaseKey()] = r\n	}"),
 'M15_meta_update_no_relative_refresh': lambda: rep('database/record/meta.go', "	if m.Deleted < 0 {\n		m.Expires = now - m.Deleted\n	}\n", ""),
 'M16_string_contains_as_prefix': lambda: rep('database/query/condition-string.go', "		return strings.Contains(comp, c.value)", "		return strings.HasPrefix(comp, c.value)"),
 'M17_bbolt_purge_ignores_condition': lambda: rep('database/storage/bbolt/bbolt.go', "				if !q.MatchesRecord(wrapper) {\n					continue\n				}\n", ""),
 'M18_fstree_delete_noop': lambda: rep('database/storage/fstree/fstree.go', "	err = os.Remove(dstPath)\n	if err != nil {", "	err = nil\n	if err != nil {"),
 'M19_flush_keeps_write_cache': lambda: rep('database/interface_cache.go', "	for key := range i.writeCache {\n		delete(i.writeCache, key)\n	}", "	for key := range i.writeCache {\n		_ = key\n	}"),
 'M20_evict_keeps_pending_entry': lambda: rep('database/interface_cache.go', "	if ok {\n		delete(i.writeCache, key)\n	}", "	if ok {\n		_ = key\n	}"),
 'M21_setabs_keeps_relative': lambda: rep('database/record/meta.go', "	m.Expires = seconds\n	m.Deleted = 0\n", "	m.Expires = seconds\n"),
 'M22_json_getstring_accepts_numbers': lambda: rep('database/accessor/accessor-json-bytes.go', "	if !result.Exists() || result.Type != gjson.String {\n		return emptyString, false", "	if !result.Exists() {\n		return emptyString, false"),
 'M23_bbolt_query_prefix_off_by_one': lambda: rep('database/storage/bbolt/bbolt.go', "			if !bytes.HasPrefix(key, prefix) {\n				return nil\n			}\n\n			// wrap value\n			iterWrapper", "			if len(prefix) > 0 && !bytes.HasPrefix(key, prefix[:len(prefix)-1]) {\n				return nil\n			}\n\n			// wrap value\n			iterWrapper"),
 'M24_hashmap_maint_shadow_purges_live_expiry_future': lambda: rep('database/storage/hashmap/map.go', "		case meta.Deleted > 0 && (!shadowDelete || meta.Deleted < purgeThreshold):", "		case meta.Deleted != 0 && (!shadowDelete || meta.Deleted < purgeThreshold):"),
}
which=sys.argv[1:] or sorted(M)
for name in which:
    subprocess.run(['git','checkout','--','.'],cwd=REPO,check=True)
    M[name]()
    t0=time.time()
    env=dict(os.environ, VERIF_REPO=REPO, GOFLAGS='-mod=mod',GOPROXY='off',GOSUMDB='off',GOTOOLCHAIN='local')
    r=subprocess.run(['./check','C02'],cwd='/verif',env=env,stdout=subprocess.PIPE,stderr=subprocess.STDOUT,text=True)
    out=r.stdout
    open('/tmp/c02-mutant-%s.log'%name,'w').write(out)
    viol=[l for l in out.splitlines() if l.startswith('VIOLATION property=')]
    first=[l.strip() for l in out.splitlines() if 'VIOLATION:' in l][:1]
    print('%s rc=%d violations=%d wall=%.0fs :: %s'%(name,r.returncode,len(viol),time.time()-t0,(first[0][:260] if first else '')),flush=True)
    subprocess.run(['git','checkout','--','.'],cwd=REPO,check=True)
