// Package c02 decides C02: every database backend behaves like one reference
// key-to-record store.
//
// Layout of the package:
//
//	main_test.go     process set-up, storage handles (thin delegating wrappers that give
//	                 the harness raw read access and let it close a per-case database)
//	content_test.go  record contents, the typed record struct, wrapper encodings
//	cond_test.go     condition trees, their generator and the independent evaluator
//	model_test.go    the reference key-to-record map and the comparison functions
//	machine_test.go  the rapid state machine (one case = one history on one configuration)
//	prop_test.go     TestProp… entry points (one per configuration, plus differential)
//	handover_test.go error hand-over of the iterator (needs the verif yield point)
//	reg_test.go      TestReg… / TestWitness…
package c02

import (
	"context"
	"errors"
	"fmt"
	"os"
	"path/filepath"
	"sync"
	"sync/atomic"
	"testing"
	"time"

	"github.com/safing/portbase/database"
	"github.com/safing/portbase/database/iterator"
	"github.com/safing/portbase/database/query"
	"github.com/safing/portbase/database/record"
	"github.com/safing/portbase/database/storage"
	"github.com/safing/portbase/database/storage/badger"
	"github.com/safing/portbase/database/storage/bbolt"
	"github.com/safing/portbase/database/storage/fstree"
	"github.com/safing/portbase/database/storage/hashmap"

	"verifharness/internal/stats"
)

var (
	scratchRoot string
	dbCounter   atomic.Int64
)

// removeStaleScratch deletes scratch directories of c02 processes that died at
// the go-test deadline (no test process lives longer than the job timeouts of
// check.json, which are far below one hour).
func removeStaleScratch() {
	dirs, _ := filepath.Glob("/dev/shm/c02-*")
	for _, d := range dirs {
		if fi, err := os.Stat(d); err == nil && fi.IsDir() && time.Since(fi.ModTime()) > time.Hour {
			_ = os.RemoveAll(d)
		}
	}
}

func TestMain(m *testing.M) {
	var err error
	removeStaleScratch()
	scratchRoot, err = os.MkdirTemp("/dev/shm", "c02-")
	if err != nil {
		fmt.Fprintln(os.Stderr, "c02: cannot create scratch dir:", err)
		os.Exit(2)
	}
	if err = database.InitializeWithPath(scratchRoot); err != nil {
		fmt.Fprintln(os.Stderr, "c02: database.InitializeWithPath:", err)
		os.Exit(2)
	}
	registerStorages()
	installHooks()

	code := m.Run()

	closeSharedBadgers()
	_ = os.RemoveAll(scratchRoot)
	stats.Flush(code)
	os.Exit(code)
}

// ---------------------------------------------------------------- storage handles
//
// The back-ends under test are the real ones (hashmap.NewHashMap, bbolt.NewBBolt,
// fstree.NewFSTree, badger.NewBadger). They are registered a second time under the
// type names c02hashmap/c02bbolt/c02fstree/c02badger behind a wrapper that only
// delegates. The wrapper exists for two reasons: (1) the harness keeps the
// storage.Interface value, so it can read the raw storage contents after
// maintenance (the "physically removes only deleted or expired records" clause) and
// (2) it can close a per-case bbolt file and turn the global
// database.MaintainRecordStates into a no-op for databases of finished cases
// (the database package has no way to unload a database).
// Each wrapper type exposes exactly the optional storage interfaces of the
// back-end it wraps; the factory refuses to run if that set ever changes.

type handle struct {
	name     string
	location string
	inner    storage.Interface
	retired  atomic.Bool
}

var (
	handlesMu sync.Mutex
	handles   = map[string]*handle{}
)

func getHandle(name string) *handle {
	handlesMu.Lock()
	defer handlesMu.Unlock()
	return handles[name]
}

func dropHandle(name string) {
	handlesMu.Lock()
	defer handlesMu.Unlock()
	delete(handles, name)
}

var errRetired = errors.New("c02: storage of a finished case was used")

type wrapBase struct{ h *handle }

func (w *wrapBase) Get(key string) (record.Record, error) {
	if w.h.retired.Load() {
		return nil, errRetired
	}
	return w.h.inner.Get(key)
}

func (w *wrapBase) GetMeta(key string) (*record.Meta, error) {
	if w.h.retired.Load() {
		return nil, errRetired
	}
	return w.h.inner.(storage.MetaHandler).GetMeta(key)
}

func (w *wrapBase) Put(r record.Record) (record.Record, error) {
	if w.h.retired.Load() {
		return nil, errRetired
	}
	return w.h.inner.Put(r)
}

func (w *wrapBase) Delete(key string) error {
	if w.h.retired.Load() {
		return errRetired
	}
	return w.h.inner.Delete(key)
}

func (w *wrapBase) Query(q *query.Query, local, internal bool) (*iterator.Iterator, error) {
	if w.h.retired.Load() {
		return nil, errRetired
	}
	return w.h.inner.Query(q, local, internal)
}

func (w *wrapBase) ReadOnly() bool { return w.h.inner.ReadOnly() }
func (w *wrapBase) Injected() bool { return w.h.inner.Injected() }
func (w *wrapBase) Shutdown() error {
	if w.h.retired.Swap(true) {
		return nil
	}
	return w.h.inner.Shutdown()
}

func (w *wrapBase) MaintainRecordStates(ctx context.Context, purgeDeletedBefore time.Time, shadowDelete bool) error {
	if w.h.retired.Load() {
		return nil // database of a finished case
	}
	return w.h.inner.MaintainRecordStates(ctx, purgeDeletedBefore, shadowDelete)
}

// wrapM: MetaHandler only (fstree).
type wrapM struct{ wrapBase }

// wrapMB: MetaHandler + Batcher (hashmap).
type wrapMB struct{ wrapBase }

func (w *wrapMB) PutMany(shadowDelete bool) (chan<- record.Record, <-chan error) {
	return w.h.inner.(storage.Batcher).PutMany(shadowDelete)
}

// wrapMBP: MetaHandler + Batcher + Purger (bbolt).
type wrapMBP struct{ wrapMB }

func (w *wrapMBP) Purge(ctx context.Context, q *query.Query, local, internal, shadowDelete bool) (int, error) {
	return w.h.inner.(storage.Purger).Purge(ctx, q, local, internal, shadowDelete)
}

// wrapMMt: MetaHandler + Maintainer (badger).
type wrapMMt struct{ wrapBase }

func (w *wrapMMt) Maintain(ctx context.Context) error {
	return w.h.inner.(storage.Maintainer).Maintain(ctx)
}

func (w *wrapMMt) MaintainThorough(ctx context.Context) error {
	return w.h.inner.(storage.Maintainer).MaintainThorough(ctx)
}

func optionalSet(s storage.Interface) string {
	out := ""
	if _, ok := s.(storage.MetaHandler); ok {
		out += "M"
	}
	if _, ok := s.(storage.Batcher); ok {
		out += "B"
	}
	if _, ok := s.(storage.Purger); ok {
		out += "P"
	}
	if _, ok := s.(storage.Maintainer); ok {
		out += "T"
	}
	return out
}

func wrapFactory(typeName string, real storage.Factory, wantSet string) storage.Factory {
	return func(name, location string) (storage.Interface, error) {
		inner, err := real(name, location)
		if err != nil {
			return nil, err
		}
		if got := optionalSet(inner); got != wantSet {
			return nil, fmt.Errorf("c02 harness out of date: %s implements optional storage interfaces %q, the delegating wrapper was written for %q", typeName, got, wantSet)
		}
		h := &handle{name: name, location: location, inner: inner}
		var w storage.Interface
		switch wantSet {
		case "M":
			w = &wrapM{wrapBase{h}}
		case "MB":
			w = &wrapMB{wrapBase{h}}
		case "MBP":
			w = &wrapMBP{wrapMB{wrapBase{h}}}
		case "MT":
			w = &wrapMMt{wrapBase{h}}
		default:
			return nil, fmt.Errorf("c02: no wrapper for interface set %q", wantSet)
		}
		if got := optionalSet(w); got != wantSet {
			return nil, fmt.Errorf("c02: wrapper for %s exposes %q, want %q", typeName, got, wantSet)
		}
		handlesMu.Lock()
		handles[name] = h
		handlesMu.Unlock()
		return w, nil
	}
}

func registerStorages() {
	must := func(err error) {
		if err != nil {
			panic(err)
		}
	}
	must(storage.Register("c02hashmap", wrapFactory("hashmap", hashmap.NewHashMap, "MB")))
	must(storage.Register("c02bbolt", wrapFactory("bbolt", bbolt.NewBBolt, "MBP")))
	must(storage.Register("c02fstree", wrapFactory("fstree", fstree.NewFSTree, "M")))
	must(storage.Register("c02badger", wrapFactory("badger", badger.NewBadger, "MT")))
	must(storage.Register("c02faulty", newFaultyStorage))
}

// ---------------------------------------------------------------- databases per case

type backend int

const (
	beHashmap backend = iota
	beBBolt
	beFSTree
	beBadger
)

func (b backend) String() string {
	return [...]string{"hashmap", "bbolt", "fstree", "badger"}[b]
}

func (b backend) storageType() string { return "c02" + b.String() }

// serializes reports whether the back-end keeps the serialized record form.
func (b backend) serializes() bool { return b != beHashmap }
func (b backend) hasBatcher() bool { return b == beHashmap || b == beBBolt }
func (b backend) hasPurger() bool  { return b == beBBolt }

// openDB registers a database and forces its controller (and storage) into existence.
func openDB(name string, be backend, shadow bool) (*handle, error) {
	_, err := database.Register(&database.Database{
		Name:         name,
		Description:  "c02 case database",
		StorageType:  be.storageType(),
		ShadowDelete: shadow,
	})
	if err != nil {
		return nil, fmt.Errorf("register %s: %w", name, err)
	}
	// Any operation loads the controller.
	probe := database.NewInterface(&database.Options{Local: true, Internal: true})
	if _, err := probe.Exists(name + ":__c02_probe__"); err != nil {
		return nil, fmt.Errorf("starting database %s: %w", name, err)
	}
	h := getHandle(name)
	if h == nil {
		return nil, fmt.Errorf("database %s started without a storage handle", name)
	}
	return h, nil
}

// retire closes the storage of a finished case and removes its files.
func (h *handle) retire() {
	if !h.retired.Swap(true) {
		_ = h.inner.Shutdown()
	}
	dropHandle(h.name)
	_ = os.RemoveAll(filepath.Join(scratchRoot, "databases", h.name))
}

func freshName(prefix string) string {
	return fmt.Sprintf("%s-%d-%d", prefix, os.Getpid(), dbCounter.Add(1))
}

// Shared badger databases (badger is slow to open): one per shadow-delete mode and
// process; every case works in its own key namespace.
var (
	badgerMu     sync.Mutex
	badgerShared = map[bool]*handle{}
)

func sharedBadger(shadow bool) (*handle, error) {
	badgerMu.Lock()
	defer badgerMu.Unlock()
	if h := badgerShared[shadow]; h != nil {
		return h, nil
	}
	h, err := openDB(freshName(fmt.Sprintf("c02badger-sd%v", shadow)), beBadger, shadow)
	if err != nil {
		return nil, err
	}
	badgerShared[shadow] = h
	return h, nil
}

func closeSharedBadgers() {
	badgerMu.Lock()
	defer badgerMu.Unlock()
	for _, h := range badgerShared {
		h.retire()
	}
}
