package c02

import (
	"context"
	"errors"
	"sort"
	"strings"
	"testing"

	"github.com/safing/portbase/database"
	"github.com/safing/portbase/database/query"
	"github.com/safing/portbase/database/record"
)

// ---------------------------------------------------------------- helpers for scripted histories

type script struct {
	t  *testing.T
	h  *handle
	db *database.Interface
}

func newScript(t *testing.T, be backend, shadow bool, opts database.Options) *script {
	t.Helper()
	h, err := openDB(freshName("c02reg"), be, shadow)
	if err != nil {
		t.Fatalf("harness: %v", err)
	}
	t.Cleanup(h.retire)
	opts.Local, opts.Internal = true, true
	if opts.DelayCachedWrites == "this" {
		opts.DelayCachedWrites = h.name
	}
	return &script{t: t, h: h, db: database.NewInterface(&opts)}
}

func (s *script) put(key string, c content) {
	s.t.Helper()
	if c.Tags == nil {
		c.Tags = []string{}
	}
	if err := s.db.Put(newRecord(s.h.name+":"+key, encodeValue(reprTyped, c, nil, nil))); err != nil {
		s.t.Fatalf("Put(%s): %v", key, err)
	}
}

func (s *script) mustNotFind(key, why string) {
	s.t.Helper()
	r, err := s.db.Get(s.h.name + ":" + key)
	if !errors.Is(err, database.ErrNotFound) {
		if err == nil {
			s.t.Fatalf("Get(%s) returned a record (meta %+v) %s; want not-found", key, *r.Meta(), why)
		}
		s.t.Fatalf("Get(%s) = %v %s; want not-found", key, err, why)
	}
	ok, err := s.db.Exists(s.h.name + ":" + key)
	if err != nil || ok {
		s.t.Fatalf("Exists(%s) = (%v, %v) %s; want (false, nil)", key, ok, err, why)
	}
}

func (s *script) mustFind(key string) record.Record {
	s.t.Helper()
	r, err := s.db.Get(s.h.name + ":" + key)
	if err != nil {
		s.t.Fatalf("Get(%s): %v", key, err)
	}
	return r
}

// keys returns the sorted keys a query yields; the query must end without error.
func (s *script) keys(prefix string, c query.Condition) []string {
	s.t.Helper()
	q := query.New(s.h.name + ":" + prefix)
	if c != nil {
		q = q.Where(c)
	}
	it, err := s.db.Query(q)
	if err != nil {
		s.t.Fatalf("Query(%q) failed: %v", prefix, err)
	}
	var out []string
	for r := range it.Next {
		out = append(out, r.DatabaseKey())
	}
	if err := it.Err(); err != nil {
		s.t.Fatalf("query %q ended with error: %v", prefix, err)
	}
	sort.Strings(out)
	return out
}

func (s *script) wantKeys(prefix string, c query.Condition, want ...string) {
	s.t.Helper()
	got := s.keys(prefix, c)
	sort.Strings(want)
	if strings.Join(got, " ") != strings.Join(want, " ") {
		s.t.Fatalf("query with key prefix %q returned %v, want %v", prefix, got, want)
	}
}

// ---------------------------------------------------------------- regressions (fixed findings)

// Delete through an interface with a cache left the deleted record in the cache.
func TestRegCachedDeleteThenGet(t *testing.T) {
	for _, be := range []backend{beHashmap, beBBolt, beFSTree} {
		for _, shadow := range []bool{false, true} {
			s := newScript(t, be, shadow, database.Options{CacheSize: 8})
			s.put("a", content{S: "x"})
			s.mustFind("a")
			if err := s.db.Delete(s.h.name + ":a"); err != nil {
				t.Fatalf("%s: Delete: %v", be, err)
			}
			s.mustNotFind("a", "after Delete through the cached interface ("+be.String()+")")
		}
	}
}

// SetAbsoluteExpiry to a time in the past through a cached interface: the record
// stayed retrievable from the cache.
func TestRegCachedExpiryThenGet(t *testing.T) {
	for _, be := range []backend{beHashmap, beBBolt} {
		s := newScript(t, be, false, database.Options{CacheSize: 8})
		s.put("a", content{S: "x"})
		s.mustFind("a")
		if err := s.db.SetAbsoluteExpiry(s.h.name+":a", farPast2); err != nil {
			t.Fatalf("SetAbsoluteExpiry: %v", err)
		}
		s.mustNotFind("a", "after its expiry was set to 2001 through the cached interface ("+be.String()+")")
	}
}

// Delete of a record whose write is still delayed.
func TestRegDelayedWriteDeleteThenGet(t *testing.T) {
	for _, be := range []backend{beHashmap, beBBolt} {
		s := newScript(t, be, false, database.Options{CacheSize: 8, DelayCachedWrites: "this"})
		s.put("a", content{S: "x"})
		if err := s.db.Delete(s.h.name + ":a"); err != nil {
			t.Fatalf("Delete: %v", err)
		}
		s.mustNotFind("a", "after Delete of a record with a delayed write ("+be.String()+")")
		s.db.FlushCache()
		s.db.ClearCache()
		s.mustNotFind("a", "after Delete, flush and ClearCache ("+be.String()+")")
		s.wantKeys("", nil)
	}
}

// FlushCache had its guard inverted and never flushed.
func TestRegFlushCacheWritesDelayedRecords(t *testing.T) {
	for _, be := range []backend{beHashmap, beBBolt} {
		s := newScript(t, be, false, database.Options{CacheSize: 8, DelayCachedWrites: "this"})
		s.put("a", content{S: "x"})
		s.put("b/c", content{S: "y"})
		s.db.FlushCache()
		s.wantKeys("", nil, "a", "b/c")
		for _, k := range []string{"a", "b/c"} {
			if _, err := s.h.inner.Get(k); err != nil {
				t.Fatalf("%s: after FlushCache the storage does not hold %q: %v", be, k, err)
			}
		}
	}
}

// fstree's query executor never compared keys with the key prefix and chose its
// walk root from whatever the prefix happened to name.
func TestRegFSTreeQueryKeyPrefix(t *testing.T) {
	s := newScript(t, beFSTree, false, database.Options{})
	for _, k := range []string{"a/b", "a/c", "a/bc", "ab/x", "b"} {
		s.put(k, content{S: k})
	}
	s.wantKeys("a/b", nil, "a/b", "a/bc")              // returned a/c as well
	s.wantKeys("a", nil, "a/b", "a/c", "a/bc", "ab/x") // missed ab/x: walked only the directory "a"
	s.wantKeys("a/", nil, "a/b", "a/c", "a/bc")
	s.wantKeys("ab", nil, "ab/x")
	s.wantKeys("a/c", nil, "a/c")
	s.wantKeys("b", nil, "b")
	s.wantKeys("", nil, "a/b", "a/c", "a/bc", "ab/x", "b")
}

// A key prefix whose directory does not exist (or that leads through a record
// file) made the fstree query end with an error instead of an empty result.
func TestRegFSTreeQueryPrefixWithoutDirectory(t *testing.T) {
	s := newScript(t, beFSTree, false, database.Options{})
	s.put("a/b", content{})
	s.wantKeys("zz/q", nil)
	s.wantKeys("a/zz/q", nil)
	s.wantKeys("a/b/c/d", nil) // a/b is a record file
	s.wantKeys("a/b/c", nil)
	// and on an empty database
	e := newScript(t, beFSTree, true, database.Options{})
	e.wantKeys("x/y", nil)
	e.wantKeys("", nil)
}

// ---------------------------------------------------------------- witnesses (open findings)

// The struct accessor only knows root-level fields: a selector "Sub.X" (README:
// "sub level field: field.sub, supported by all feeders") matches a record held
// in serialized form but never the same record held as typed struct.
func TestWitnessNestedSelectorOnTypedStruct(t *testing.T) {
	v := encodeValue(reprTyped, content{I: 1, Tags: []string{"x"}, Sub: Sub{X: 7, Name: "n"}}, nil, nil)
	typed := newRecord("db:k", v)
	typed.UpdateMeta()
	raw, err := typed.MarshalRecord(typed)
	if err != nil {
		t.Fatal(err)
	}
	ser, err := record.NewRawWrapper("db", "k", raw)
	if err != nil {
		t.Fatal(err)
	}
	for _, c := range []struct {
		name string
		cond query.Condition
	}{
		{`Sub.X == 7`, query.Where("Sub.X", query.Equals, 7)},
		{`Sub.Name sameas "n"`, query.Where("Sub.Name", query.SameAs, "n")},
		{`Tags.0 sameas "x"`, query.Where("Tags.0", query.SameAs, "x")},
		{`Tags.# == 1`, query.Where("Tags.#", query.Equals, 1)},
		{`Sub.X exists`, query.Where("Sub.X", query.Exists, nil)},
	} {
		q := query.New("db:").Where(c.cond).MustBeValid()
		mt, ms := q.MatchesRecord(typed), q.MatchesRecord(ser)
		if !ms {
			t.Fatalf("harness: %s does not match the serialized record", c.name)
		}
		if mt != ms {
			t.Errorf("condition %s: serialized record matches=%v, the same record as typed struct matches=%v", c.name, ms, mt)
		}
	}
	// and through a database: hashmap keeps the typed struct, bbolt the serialized form
	for _, be := range []backend{beHashmap, beBBolt} {
		s := newScript(t, be, false, database.Options{})
		s.put("k", content{Sub: Sub{X: 7}})
		if got := s.keys("", query.Where("Sub.X", query.Equals, 7)); len(got) != 1 {
			t.Errorf("%s: query where Sub.X == 7 returned %v, want [k]", be, got)
		}
	}
}

var _ = context.Background

// A record saved through an interface with AlwaysSetRelativateExpiry was stored
// without an expiry time the first time (the option was applied after the
// metadata had been updated) and got one only when it was saved again.
func TestRegAlwaysRelativeExpiryOnFirstSave(t *testing.T) {
	for _, be := range []backend{beHashmap, beBBolt, beFSTree} {
		s := newScript(t, be, false, database.Options{AlwaysSetRelativateExpiry: 3600})
		before := nowUnix()
		s.put("a", content{S: "x"})
		after := nowUnix()
		r, err := s.db.Get(s.h.name + ":a")
		if err != nil {
			t.Fatalf("%s: Get: %v", be, err)
		}
		r.Lock()
		exp := r.Meta().Expires
		r.Unlock()
		if exp < before+3600 || exp > after+3600 {
			t.Fatalf("%s: a record saved once through an interface with AlwaysSetRelativateExpiry=3600 has Expires=%d, want %d..%d", be, exp, before+3600, after+3600)
		}
	}
}
