package c02

import (
	"context"
	"errors"
	"sync"
	"time"

	"github.com/safing/portbase/database/iterator"
	"github.com/safing/portbase/database/query"
	"github.com/safing/portbase/database/record"
	"github.com/safing/portbase/database/storage"
)

// faultyStorage is the injected failing storage for the error hand-over clause: its
// query executor streams a planned number of records and then finishes the
// iterator with a planned error, exactly the way the real executors do
// (queryIter.Next <- r ... queryIter.Finish(err)).
type faultyStorage struct {
	mu      sync.Mutex
	name    string
	records []record.Record
	err     error
}

var (
	errInjected = errors.New("c02: injected storage failure")

	faultyMu        sync.Mutex
	faultyInstances = map[string]*faultyStorage{}
)

func newFaultyStorage(name, location string) (storage.Interface, error) {
	f := &faultyStorage{name: name}
	faultyMu.Lock()
	faultyInstances[name] = f
	faultyMu.Unlock()
	return f, nil
}

func (f *faultyStorage) plan(records []record.Record, err error) {
	f.mu.Lock()
	f.records, f.err = records, err
	f.mu.Unlock()
}

func (f *faultyStorage) Get(key string) (record.Record, error) { return nil, storage.ErrNotFound }
func (f *faultyStorage) Put(r record.Record) (record.Record, error) {
	return nil, errors.New("c02 faulty storage: put not supported")
}
func (f *faultyStorage) Delete(key string) error { return nil }
func (f *faultyStorage) ReadOnly() bool          { return false }
func (f *faultyStorage) Injected() bool          { return false }
func (f *faultyStorage) Shutdown() error         { return nil }
func (f *faultyStorage) MaintainRecordStates(ctx context.Context, purgeDeletedBefore time.Time, shadowDelete bool) error {
	return nil
}

func (f *faultyStorage) Query(q *query.Query, local, internal bool) (*iterator.Iterator, error) {
	f.mu.Lock()
	records, err := f.records, f.err
	f.mu.Unlock()
	it := iterator.New()
	go func() {
		for _, r := range records {
			select {
			case it.Next <- r:
			case <-it.Done:
				it.Finish(nil)
				return
			}
		}
		it.Finish(err)
	}()
	return it, nil
}
