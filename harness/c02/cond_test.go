package c02

import (
	"fmt"
	"regexp"
	"strconv"
	"strings"

	"github.com/safing/portbase/database/query"
	"pgregory.net/rapid"
)

// ---------------------------------------------------------------- field view
//
// The independent evaluator works on a view of the record's fields that is built
// from the model value (never from what portbase stored): which selectors exist
// and which type and value they have. It follows database/query/README.md:
// selectors "field", "field.sub", "list.0", "list.#"; operators with a required
// type (int / float / string / bool / any).

type fkind int

const (
	fAbsent fkind = iota
	fInt
	fFloat
	fString
	fBool
	fList
	fObject
)

type fval struct {
	kind fkind
	i    int64
	f    float64
	s    string
	b    bool
}

func omitted(v value, name string) bool {
	for _, o := range v.omit {
		if o == name {
			return true
		}
	}
	return false
}

// lookup resolves a selector on a value that has fields.
func lookup(v value, sel string) fval {
	parts := strings.Split(sel, ".")
	if omitted(v, parts[0]) {
		return fval{}
	}
	c := v.c
	switch parts[0] {
	case "S", "K":
		if len(parts) == 1 {
			return fval{kind: fString, s: c.S}
		}
	case "I":
		if len(parts) == 1 {
			return fval{kind: fInt, i: c.I}
		}
	case "F":
		if len(parts) == 1 {
			return fval{kind: fFloat, f: c.F}
		}
	case "B":
		if len(parts) == 1 {
			return fval{kind: fBool, b: c.B}
		}
	case "Tags":
		if len(parts) == 1 {
			return fval{kind: fList}
		}
		if len(parts) == 2 {
			if parts[1] == "#" {
				return fval{kind: fInt, i: int64(len(c.Tags))}
			}
			if n, err := strconv.Atoi(parts[1]); err == nil && n >= 0 && n < len(c.Tags) {
				return fval{kind: fString, s: c.Tags[n]}
			}
		}
	case "Sub":
		if len(parts) == 1 {
			return fval{kind: fObject}
		}
		if len(parts) == 2 {
			switch parts[1] {
			case "X":
				return fval{kind: fInt, i: c.Sub.X}
			case "Name":
				return fval{kind: fString, s: c.Sub.Name}
			}
		}
	}
	return fval{}
}

// ---------------------------------------------------------------- condition trees

type ckind int

const (
	cLeaf ckind = iota
	cAnd
	cOr
	cNot
)

type cond struct {
	kind ckind
	kids []*cond

	// leaf
	sel string
	op  uint8
	// operand, by operator class
	i   int64
	f   float64
	s   string
	ss  []string
	b   bool
	arg any // the Go value handed to query.Where (varied representation)
}

func (c *cond) depth() int {
	if c == nil {
		return 0
	}
	if c.kind == cLeaf {
		return 1
	}
	d := 0
	for _, k := range c.kids {
		if kd := k.depth(); kd > d {
			d = kd
		}
	}
	return d + 1
}

func (c *cond) usesNested() bool {
	if c == nil {
		return false
	}
	if c.kind == cLeaf {
		return strings.Contains(c.sel, ".")
	}
	for _, k := range c.kids {
		if k.usesNested() {
			return true
		}
	}
	return false
}

// flatten replaces nested selectors by root-level ones of the same type.
func (c *cond) flatten() {
	if c == nil {
		return
	}
	if c.kind == cLeaf {
		switch c.sel {
		case "Sub.X", "Tags.#":
			c.sel = "I"
		case "Sub.Name", "Tags.0", "Tags.1":
			c.sel = "S"
		case "Sub.Nope":
			c.sel = "Nope"
		}
		return
	}
	for _, k := range c.kids {
		k.flatten()
	}
}

var opNames = map[uint8]string{
	query.Equals: "==", query.GreaterThan: ">", query.GreaterThanOrEqual: ">=", query.LessThan: "<", query.LessThanOrEqual: "<=",
	query.FloatEquals: "f==", query.FloatGreaterThan: "f>", query.FloatGreaterThanOrEqual: "f>=", query.FloatLessThan: "f<", query.FloatLessThanOrEqual: "f<=",
	query.SameAs: "sameas", query.Contains: "contains", query.StartsWith: "startswith", query.EndsWith: "endswith",
	query.In: "in", query.Matches: "matches", query.Is: "is", query.Exists: "exists",
}

func (c *cond) String() string {
	if c == nil {
		return "<none>"
	}
	switch c.kind {
	case cLeaf:
		switch opClass(c.op) {
		case clsInt:
			return fmt.Sprintf("%s %s %d", c.sel, opNames[c.op], c.i)
		case clsFloat:
			return fmt.Sprintf("%s %s %v", c.sel, opNames[c.op], c.f)
		case clsString, clsRegex:
			return fmt.Sprintf("%s %s %q", c.sel, opNames[c.op], c.s)
		case clsIn:
			return fmt.Sprintf("%s in %q", c.sel, c.ss)
		case clsBool:
			return fmt.Sprintf("%s is %v", c.sel, c.b)
		default:
			return c.sel + " exists"
		}
	case cNot:
		return "not(" + c.kids[0].String() + ")"
	default:
		parts := make([]string, len(c.kids))
		for i, k := range c.kids {
			parts[i] = k.String()
		}
		j := " and "
		if c.kind == cOr {
			j = " or "
		}
		return "(" + strings.Join(parts, j) + ")"
	}
}

type oclass int

const (
	clsInt oclass = iota
	clsFloat
	clsString
	clsIn
	clsRegex
	clsBool
	clsExists
)

func opClass(op uint8) oclass {
	switch op {
	case query.Equals, query.GreaterThan, query.GreaterThanOrEqual, query.LessThan, query.LessThanOrEqual:
		return clsInt
	case query.FloatEquals, query.FloatGreaterThan, query.FloatGreaterThanOrEqual, query.FloatLessThan, query.FloatLessThanOrEqual:
		return clsFloat
	case query.SameAs, query.Contains, query.StartsWith, query.EndsWith:
		return clsString
	case query.In:
		return clsIn
	case query.Matches:
		return clsRegex
	case query.Is:
		return clsBool
	default:
		return clsExists
	}
}

// toQuery builds the portbase condition.
func (c *cond) toQuery() query.Condition {
	switch c.kind {
	case cLeaf:
		return query.Where(c.sel, c.op, c.arg)
	case cNot:
		return query.Not(c.kids[0].toQuery())
	default:
		ks := make([]query.Condition, len(c.kids))
		for i, k := range c.kids {
			ks[i] = k.toQuery()
		}
		if c.kind == cAnd {
			return query.And(ks...)
		}
		return query.Or(ks...)
	}
}

// eval is the independent evaluator: the README operator table over the field view.
func (c *cond) eval(get func(sel string) fval) bool {
	switch c.kind {
	case cAnd:
		for _, k := range c.kids {
			if !k.eval(get) {
				return false
			}
		}
		return true
	case cOr:
		for _, k := range c.kids {
			if k.eval(get) {
				return true
			}
		}
		return false
	case cNot:
		return !c.kids[0].eval(get)
	}
	fv := get(c.sel)
	switch opClass(c.op) {
	case clsExists:
		return fv.kind != fAbsent
	case clsInt:
		if fv.kind != fInt {
			return false
		}
		switch c.op {
		case query.Equals:
			return fv.i == c.i
		case query.GreaterThan:
			return fv.i > c.i
		case query.GreaterThanOrEqual:
			return fv.i >= c.i
		case query.LessThan:
			return fv.i < c.i
		default:
			return fv.i <= c.i
		}
	case clsFloat:
		if fv.kind != fFloat {
			return false
		}
		switch c.op {
		case query.FloatEquals:
			return fv.f == c.f
		case query.FloatGreaterThan:
			return fv.f > c.f
		case query.FloatGreaterThanOrEqual:
			return fv.f >= c.f
		case query.FloatLessThan:
			return fv.f < c.f
		default:
			return fv.f <= c.f
		}
	case clsString:
		if fv.kind != fString {
			return false
		}
		switch c.op {
		case query.SameAs:
			return fv.s == c.s
		case query.Contains:
			return strings.Contains(fv.s, c.s)
		case query.StartsWith:
			return strings.HasPrefix(fv.s, c.s)
		default:
			return strings.HasSuffix(fv.s, c.s)
		}
	case clsIn:
		if fv.kind != fString {
			return false
		}
		for _, x := range c.ss {
			if x == fv.s {
				return true
			}
		}
		return false
	case clsRegex:
		if fv.kind != fString {
			return false
		}
		return regexp.MustCompile(c.s).MatchString(fv.s)
	case clsBool:
		if fv.kind != fBool {
			return false
		}
		return fv.b == c.b
	}
	return false
}

// verdict of the oracle for one record and one condition
type verdict int

const (
	mustMatch verdict = iota
	mustNotMatch
	eitherWay // not asserted (see expect)
)

// expect says whether a visible record with the right key prefix must be part of
// the result. Records without field access (CBOR/MsgPack/RAW payloads, empty
// JSON payload) have no fields: a condition that is false over "no fields" must
// not select them; whether a condition that is true over "no fields" (e.g. a
// negation) selects them is not documented and is not asserted.
func expect(v value, c *cond) verdict {
	if c == nil {
		return mustMatch
	}
	if !v.hasFields() {
		if c.eval(func(string) fval { return fval{} }) {
			return eitherWay
		}
		return mustNotMatch
	}
	if c.eval(func(sel string) fval { return lookup(v, sel) }) {
		return mustMatch
	}
	return mustNotMatch
}

// ---------------------------------------------------------------- generator

type selInfo struct {
	name string
	kind fkind // static type of the selector when present
}

var selectors = []selInfo{
	{"S", fString}, {"K", fString}, {"I", fInt}, {"F", fFloat}, {"B", fBool}, {"Tags", fList}, {"Sub", fObject}, {"Nope", fAbsent},
	{"Sub.X", fInt}, {"Sub.Name", fString}, {"Sub.Nope", fAbsent}, {"Tags.0", fString}, {"Tags.1", fString}, {"Tags.#", fInt},
}

var (
	intOps    = []uint8{query.Equals, query.GreaterThan, query.GreaterThanOrEqual, query.LessThan, query.LessThanOrEqual}
	floatOps  = []uint8{query.FloatEquals, query.FloatGreaterThan, query.FloatGreaterThanOrEqual, query.FloatLessThan, query.FloatLessThanOrEqual}
	stringOps = []uint8{query.SameAs, query.Contains, query.StartsWith, query.EndsWith}
	regexPool = []string{"^a", "b$", "a.c", "", "[0-9]+", "ä", "^$", "^[A-Z]", "a|x", `\s`}
)

func genLeaf(t *rapid.T) *cond {
	// root-level selectors twice as likely as nested ones
	var si selInfo
	if rapid.IntRange(0, 2).Draw(t, "nestedSel") == 0 {
		si = selectors[7+rapid.IntRange(0, 5).Draw(t, "selN")]
	} else {
		si = selectors[rapid.IntRange(0, 6).Draw(t, "sel")]
	}
	c := &cond{kind: cLeaf, sel: si.name}

	// operator class: mostly the one that fits the field type, sometimes a mismatch
	// whose result is "no match" on every representation. Never an int operator on
	// a float field or a float operator on an int field (not documented, not asserted).
	var cls oclass
	fit := rapid.IntRange(0, 9).Draw(t, "fit")
	switch {
	case fit == 0:
		cls = clsExists
	case fit <= 7:
		switch si.kind {
		case fInt:
			cls = clsInt
		case fFloat:
			cls = clsFloat
		case fString:
			cls = []oclass{clsString, clsString, clsIn, clsRegex}[rapid.IntRange(0, 3).Draw(t, "scls")]
		case fBool:
			cls = clsBool
		default:
			cls = []oclass{clsExists, clsString, clsInt, clsBool}[rapid.IntRange(0, 3).Draw(t, "acls")]
		}
	default:
		cls = []oclass{clsInt, clsFloat, clsString, clsIn, clsRegex, clsBool}[rapid.IntRange(0, 5).Draw(t, "mcls")]
		if (cls == clsInt && si.kind == fFloat) || (cls == clsFloat && si.kind == fInt) {
			cls = clsString
		}
	}

	switch cls {
	case clsExists:
		c.op = query.Exists
	case clsInt:
		c.op = rapid.SampledFrom(intOps).Draw(t, "iop")
		if si.name == "Tags.#" {
			c.i = int64(rapid.IntRange(0, 3).Draw(t, "count"))
		} else {
			c.i = rapid.SampledFrom(poolI).Draw(t, "ival")
			if rapid.IntRange(0, 3).Draw(t, "ioff") == 0 {
				d := int64(rapid.IntRange(-1, 1).Draw(t, "idelta"))
				if (d > 0 && c.i < 9223372036854775807) || (d < 0 && c.i > -9223372036854775808) {
					c.i += d
				}
			}
		}
		switch rapid.IntRange(0, 2).Draw(t, "irepr") {
		case 0:
			c.arg = c.i
		case 1:
			c.arg = strconv.FormatInt(c.i, 10)
		default:
			if int64(int(c.i)) == c.i {
				c.arg = int(c.i)
			} else {
				c.arg = c.i
			}
		}
	case clsFloat:
		c.op = rapid.SampledFrom(floatOps).Draw(t, "fop")
		c.f = rapid.SampledFrom(poolF).Draw(t, "fval")
		if rapid.Bool().Draw(t, "frepr") {
			c.arg = c.f
		} else {
			c.arg = strconv.FormatFloat(c.f, 'g', -1, 64)
		}
	case clsString:
		c.op = rapid.SampledFrom(stringOps).Draw(t, "sop")
		if rapid.Bool().Draw(t, "sFromPool") {
			c.s = rapid.SampledFrom(poolS).Draw(t, "sval")
		} else {
			c.s = rapid.SampledFrom([]string{"a", "b", "c", "x", "n", "y", "ä", "<", "\\", "\""}).Draw(t, "sfrag")
		}
		c.arg = c.s
	case clsIn:
		c.op = query.In
		c.ss = rapid.SliceOfN(rapid.SampledFrom(append(append([]string{}, poolS...), poolTag...)), 2, 4).Draw(t, "inset")
		noComma := true
		for _, x := range c.ss {
			if strings.Contains(x, ",") {
				noComma = false
			}
		}
		if noComma && rapid.Bool().Draw(t, "inAsString") {
			c.arg = strings.Join(c.ss, ",")
		} else {
			c.arg = c.ss
		}
	case clsRegex:
		c.op = query.Matches
		c.s = rapid.SampledFrom(regexPool).Draw(t, "regex")
		c.arg = c.s
	case clsBool:
		c.op = query.Is
		c.b = rapid.Bool().Draw(t, "bval")
		if rapid.Bool().Draw(t, "brepr") {
			c.arg = c.b
		} else if c.b {
			c.arg = rapid.SampledFrom([]string{"1", "t", "T", "true", "True", "TRUE"}).Draw(t, "btrue")
		} else {
			c.arg = rapid.SampledFrom([]string{"0", "f", "F", "false", "False", "FALSE"}).Draw(t, "bfalse")
		}
	}
	return c
}

func genCond(t *rapid.T, maxDepth int) *cond {
	if maxDepth <= 1 || rapid.IntRange(0, 2).Draw(t, "leaf") == 0 {
		return genLeaf(t)
	}
	switch rapid.IntRange(0, 2).Draw(t, "node") {
	case 0:
		return &cond{kind: cNot, kids: []*cond{genCond(t, maxDepth-1)}}
	case 1:
		n := rapid.IntRange(1, 3).Draw(t, "andN")
		c := &cond{kind: cAnd}
		for i := 0; i < n; i++ {
			c.kids = append(c.kids, genCond(t, maxDepth-1))
		}
		return c
	default:
		n := rapid.IntRange(1, 3).Draw(t, "orN")
		c := &cond{kind: cOr}
		for i := 0; i < n; i++ {
			c.kids = append(c.kids, genCond(t, maxDepth-1))
		}
		return c
	}
}
