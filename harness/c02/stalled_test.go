package c02

import (
	"fmt"
	"testing"
	"time"

	"github.com/safing/portbase/database"
	"github.com/safing/portbase/database/query"
	"pgregory.net/rapid"

	"verifharness/internal/stats"
)

// Stalled consumer: the only storage error the hashmap, bbolt and file-tree
// executors can raise on their own is the one of their one-second stall guard -
// the result stream holds ten records, and a producer that cannot hand over the
// next one for a second gives up. The consumer of such a query takes a drawn
// number of records, then does nothing for longer than the guard and finally
// drains the stream to its end.
//
// Oracle (no wall-clock verdict): every delivered record was stored and is
// delivered once; and if the stream ended before all stored records were
// delivered, Err() must report an error - a truncated result must not look like a
// complete one. If the guard did not fire (it always does, but nothing depends on
// it) all records arrive and there is nothing to judge.
// (badger is left out: its guard waits a minute.)

func TestPropStalledConsumer(t *testing.T) {
	rapid.Check(t, func(t *rapid.T) {
		be := rapid.SampledFrom([]backend{beHashmap, beHashmap, beBBolt, beFSTree}).Draw(t, "backend")
		shadow := rapid.Bool().Draw(t, "shadow")
		n := rapid.IntRange(12, 40).Draw(t, "records")
		first := rapid.IntRange(0, n-12).Draw(t, "taken_before_the_stall")
		h, err := openDB(freshName("c02"), be, shadow)
		if err != nil {
			t.Fatalf("harness: %v", err)
		}
		defer h.retire()
		db := database.NewInterface(&database.Options{Local: true, Internal: true})
		stored := map[string]bool{}
		for i := 0; i < n; i++ {
			k := fmt.Sprintf("%s:r%03d", h.name, i)
			if err := db.Put(newRecord(k, encodeValue(reprTyped, content{S: "x", I: int64(i)}, nil, nil))); err != nil {
				t.Fatalf("Put(%s): %v", k, err)
			}
			stored[k] = true
		}
		it, err := db.Query(query.New(h.name + ":"))
		if err != nil {
			t.Fatalf("Query failed: %v", err)
		}
		seen := map[string]bool{}
		take := func() bool {
			r, ok := <-it.Next
			if !ok {
				return false
			}
			k := r.Key()
			if !stored[k] {
				t.Fatalf("VIOLATION: the query delivered %q, which was never stored", k)
			}
			if seen[k] {
				t.Fatalf("VIOLATION: the query delivered %q twice", k)
			}
			seen[k] = true
			return true
		}
		open := true
		for i := 0; i < first && open; i++ {
			open = take()
		}
		time.Sleep(1250 * time.Millisecond)
		for open {
			open = take()
		}
		qerr := it.Err()
		if len(seen) < n && qerr == nil {
			t.Fatalf("VIOLATION: %s: the consumer took %d records, stalled for 1.25 s and drained the stream: it ended after %d of %d stored records, but Err() reports no error (a truncated result is indistinguishable from a complete one)",
				be.storageType(), first, len(seen), n)
		}
		cls := "stalled_consumer_all_records_delivered"
		if len(seen) < n {
			cls = "stalled_consumer_stream_truncated_and_error_reported"
		}
		stats.Case(fmt.Sprintf("stalled|%s|%v|%d|%d", be.storageType(), shadow, n, first), len(seen) < n, "config stalled/"+be.storageType(), cls)
		if stats.WantSample("stalled") {
			stats.Sample("stalled", map[string]any{"backend": be.storageType(), "records": n, "taken_before_stall": first, "delivered": len(seen), "err": fmt.Sprint(qerr)})
		}
	})
}
