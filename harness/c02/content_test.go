package c02

import (
	"bytes"
	"encoding/json"
	"fmt"
	"sort"
	"strings"
	"sync"

	"github.com/safing/portbase/database/record"
	"github.com/safing/portbase/formats/dsd"
	"pgregory.net/rapid"
)

// Sub is the nested part of a record.
type Sub struct {
	X    int64
	Name string
}

// Rec is the typed record of the harness. Field names equal their JSON names (no
// tags), which is the documented precondition for addressing the same field
// through the struct and the JSON accessor.
type Rec struct {
	record.Base
	sync.Mutex

	S    string
	K    Kind // a field of a named string type; it always holds the same text as S
	I    int64
	F    float64
	B    bool
	Tags []string
	Sub  Sub
}

// Kind is a named string type (struct fields of such types are strings to queries like any other).
type Kind string

// content is the value of a record, independent of how it is held.
type content struct {
	S    string
	I    int64
	F    float64
	B    bool
	Tags []string
	Sub  Sub
}

func (c content) clone() content {
	c.Tags = append([]string{}, c.Tags...)
	return c
}

func (c content) equal(o content) bool {
	if c.S != o.S || c.I != o.I || c.F != o.F || c.B != o.B || c.Sub != o.Sub || len(c.Tags) != len(o.Tags) {
		return false
	}
	for i := range c.Tags {
		if c.Tags[i] != o.Tags[i] {
			return false
		}
	}
	return true
}

func (c content) String() string {
	return fmt.Sprintf("{S:%q I:%d F:%v B:%v Tags:%q Sub:{%d %q}}", c.S, c.I, c.F, c.B, c.Tags, c.Sub.X, c.Sub.Name)
}

func (r *Rec) content() content {
	return content{S: r.S, I: r.I, F: r.F, B: r.B, Tags: append([]string{}, r.Tags...), Sub: r.Sub}
}

func (r *Rec) setContent(c content) {
	r.S, r.K, r.I, r.F, r.B, r.Sub = c.S, Kind(c.S), c.I, c.F, c.B, c.Sub
	r.Tags = append([]string{}, c.Tags...)
}

// representation of a stored record
type repr int

const (
	reprTyped   repr = iota // *Rec
	reprJSON                // *record.Wrapper, dsd.JSON (has a JSON accessor)
	reprCBOR                // *record.Wrapper, dsd.CBOR (no accessor)
	reprMsgPack             // *record.Wrapper, dsd.MsgPack (no accessor)
	reprRAW                 // *record.Wrapper, dsd.RAW arbitrary bytes (no accessor)
)

func (r repr) String() string {
	return [...]string{"typed", "wrapJSON", "wrapCBOR", "wrapMsgPack", "wrapRAW"}[r]
}

func (r repr) format() uint8 {
	switch r {
	case reprJSON:
		return dsd.JSON
	case reprCBOR:
		return dsd.CBOR
	case reprMsgPack:
		return dsd.MsgPack
	case reprRAW:
		return dsd.RAW
	}
	return dsd.JSON
}

// value is what the model remembers about the data of a record.
type value struct {
	repr repr
	c    content  // typed / JSON / CBOR / MsgPack
	omit []string // JSON wrapper only: top-level fields left out of the object
	data []byte   // wrapper payload bytes exactly as stored (all wrapper forms)
}

func (v value) String() string {
	switch v.repr {
	case reprTyped:
		return "typed" + v.c.String()
	case reprRAW:
		return fmt.Sprintf("raw(%x)", v.data)
	default:
		if len(v.omit) > 0 {
			return fmt.Sprintf("%s%s omit%v", v.repr, v.c, v.omit)
		}
		return v.repr.String() + v.c.String()
	}
}

// hasFields reports whether the stored form offers field access to queries
// (struct accessor or JSON accessor).
func (v value) hasFields() bool {
	return v.repr == reprTyped || (v.repr == reprJSON && len(v.data) > 0)
}

var topFields = []string{"S", "K", "I", "F", "B", "Tags", "Sub"}

// encodeJSON renders the content as a JSON object, leaving out the omitted
// top-level fields. Field order is the struct order.
func encodeJSON(c content, omit []string) []byte {
	var buf bytes.Buffer
	buf.WriteByte('{')
	first := true
	add := func(name string, v any) {
		for _, o := range omit {
			if o == name {
				return
			}
		}
		if !first {
			buf.WriteByte(',')
		}
		first = false
		k, _ := json.Marshal(name)
		b, err := json.Marshal(v)
		if err != nil {
			panic(err)
		}
		buf.Write(k)
		buf.WriteByte(':')
		buf.Write(b)
	}
	add("S", c.S)
	add("K", c.S)
	add("I", c.I)
	add("F", c.F)
	add("B", c.B)
	add("Tags", c.Tags)
	add("Sub", c.Sub)
	buf.WriteByte('}')
	return buf.Bytes()
}

func encodeValue(r repr, c content, omit []string, raw []byte) value {
	v := value{repr: r, c: c.clone()}
	switch r {
	case reprTyped:
	case reprJSON:
		v.omit = append([]string{}, omit...)
		sort.Strings(v.omit)
		v.data = encodeJSON(c, omit)
	case reprCBOR, reprMsgPack:
		// dsd.Dump prepends the format byte; the wrapper stores the payload only.
		d, err := dsd.Dump(c, r.format())
		if err != nil {
			panic(err)
		}
		v.data = d[1:]
	case reprRAW:
		v.c = content{}
		v.data = append([]byte{}, raw...)
	}
	return v
}

// newRecord builds a fresh record object for the value under the full key.
func newRecord(fullKey string, v value) record.Record {
	if v.repr == reprTyped {
		r := &Rec{}
		r.setContent(v.c)
		r.SetKey(fullKey)
		return r
	}
	w, err := record.NewWrapper(fullKey, nil, v.repr.format(), append([]byte{}, v.data...))
	if err != nil {
		panic(err)
	}
	return w
}

// ---------------------------------------------------------------- generators

var (
	poolS    = []string{"", "a", "ab", "abc", "Ab", "b<c&d>", "ä", "a b", "x\"y\\z", "0", "true", "a,b", "line\nbreak", " "}
	poolI    = []int64{0, 1, -1, 2, 3, 42, -42, 1 << 31, 1<<53 - 1, 1 << 53, 1<<53 + 1, -(1 << 53) - 1, 9223372036854775807, -9223372036854775808, 9223372036854775806}
	poolF    = []float64{0, 0.5, -0.5, 1, 2, -3, 3.14, 1e21, 1e300, -1e-300, 4.9e-324, 1.7976931348623157e308, 0.1, 123456789.125}
	poolTag  = []string{"x", "y", "", "a", "x y", "ä"}
	poolName = []string{"", "n", "ab", "Name"}
)

func genContent(t *rapid.T) content {
	c := content{
		S: rapid.SampledFrom(poolS).Draw(t, "S"),
		I: rapid.SampledFrom(poolI).Draw(t, "I"),
		F: rapid.SampledFrom(poolF).Draw(t, "F"),
		B: rapid.Bool().Draw(t, "B"),
	}
	c.Tags = rapid.SliceOfN(rapid.SampledFrom(poolTag), 0, 3).Draw(t, "Tags")
	if c.Tags == nil {
		c.Tags = []string{}
	}
	c.Sub = Sub{X: rapid.SampledFrom(poolI).Draw(t, "SubX"), Name: rapid.SampledFrom(poolName).Draw(t, "SubName")}
	return c
}

func genValue(t *rapid.T) value {
	// typed and JSON wrappers dominate: they are the forms queries can look into
	k := rapid.IntRange(0, 11).Draw(t, "repr")
	switch {
	case k <= 4:
		return encodeValue(reprTyped, genContent(t), nil, nil)
	case k <= 8:
		c := genContent(t)
		var omit []string
		if rapid.IntRange(0, 2).Draw(t, "omitSome") == 0 {
			for _, f := range topFields {
				if rapid.IntRange(0, 3).Draw(t, "omit"+f) == 0 {
					omit = append(omit, f)
				}
			}
		}
		return encodeValue(reprJSON, c, omit, nil)
	case k == 9:
		return encodeValue(reprCBOR, genContent(t), nil, nil)
	case k == 10:
		return encodeValue(reprMsgPack, genContent(t), nil, nil)
	default:
		raw := rapid.SliceOfN(rapid.Byte(), 0, 6).Draw(t, "raw")
		return encodeValue(reprRAW, content{}, nil, raw)
	}
}

// ---------------------------------------------------------------- keys

// segments that start with a dot are ordinary names. (No segment starts with two dots: a query prefix ".." would be a
// parent reference when read as a path, which C18 wants refused.)
// (segments with a colon: the part of a key behind the database name may hold further colons - host:port, say - and two
// such keys may agree up to the colon)
var keySegments = []string{"a", "b", "ab", "a-b", "ä", ".h", "a.b", "a b", "h:1", "h:2", "a:"}

func genKey(t *rapid.T) string {
	n := rapid.IntRange(1, 3).Draw(t, "segs")
	parts := make([]string, n)
	for i := range parts {
		parts[i] = rapid.SampledFrom(keySegments).Draw(t, "seg")
	}
	return strings.Join(parts, "/")
}

// segmentConflict reports whether one key is a proper prefix of the other at a
// path-segment boundary (one would be a file, the other needs it as a directory).
func segmentConflict(a, b string) bool {
	return strings.HasPrefix(a, b+"/") || strings.HasPrefix(b, a+"/")
}

// genKeyPool draws the key space of a case. For the file-tree back-end the set is
// made prefix-free at path-segment boundaries by construction (stated precondition).
func genKeyPool(t *rapid.T, prefixFree bool) []string {
	n := rapid.IntRange(3, 9).Draw(t, "poolSize")
	var pool []string
	seen := map[string]bool{}
	for len(pool) < n {
		k := genKey(t)
		if seen[k] {
			// replace a duplicate draw deterministically instead of rejecting the case
			k = k + "/" + keySegments[len(pool)%len(keySegments)]
			if seen[k] || strings.Count(k, "/") > 3 {
				n--
				continue
			}
		}
		if prefixFree {
			conflict := false
			for _, p := range pool {
				if segmentConflict(p, k) {
					conflict = true
					break
				}
			}
			if conflict {
				n--
				continue
			}
		}
		seen[k] = true
		pool = append(pool, k)
	}
	if len(pool) == 0 {
		pool = []string{"a"}
	}
	return pool
}
