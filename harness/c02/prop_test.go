package c02

import (
	"fmt"
	"testing"

	"github.com/safing/portbase/database/query"
	"github.com/safing/portbase/database/record"
	"pgregory.net/rapid"

	"verifharness/internal/stats"
)

func prop(t *testing.T, be backend, shadow bool, cache cacheMode) {
	t.Helper()
	cfg := config{be: be, shadow: shadow, cache: cache}
	rapid.Check(t, func(t *rapid.T) { runCase(t, cfg) })
}

// hashmap: keeps record objects (typed structs stay typed)
func TestPropHashmapSD0NoCache(t *testing.T)   { prop(t, beHashmap, false, cacheNone) }
func TestPropHashmapSD1NoCache(t *testing.T)   { prop(t, beHashmap, true, cacheNone) }
func TestPropHashmapSD0ReadCache(t *testing.T) { prop(t, beHashmap, false, cacheRead) }
func TestPropHashmapSD1ReadCache(t *testing.T) { prop(t, beHashmap, true, cacheRead) }
func TestPropHashmapSD0Delayed(t *testing.T)   { prop(t, beHashmap, false, cacheDelayed) }
func TestPropHashmapSD1Delayed(t *testing.T)   { prop(t, beHashmap, true, cacheDelayed) }

// bbolt: serialized records, batch and purge support
func TestPropBBoltSD0NoCache(t *testing.T)   { prop(t, beBBolt, false, cacheNone) }
func TestPropBBoltSD1NoCache(t *testing.T)   { prop(t, beBBolt, true, cacheNone) }
func TestPropBBoltSD0ReadCache(t *testing.T) { prop(t, beBBolt, false, cacheRead) }
func TestPropBBoltSD1ReadCache(t *testing.T) { prop(t, beBBolt, true, cacheRead) }
func TestPropBBoltSD0Delayed(t *testing.T)   { prop(t, beBBolt, false, cacheDelayed) }
func TestPropBBoltSD1Delayed(t *testing.T)   { prop(t, beBBolt, true, cacheDelayed) }

// fstree: one file per record (key sets prefix-free at path-segment boundaries);
// no batch support, hence no delayed-write configuration
func TestPropFSTreeSD0NoCache(t *testing.T)   { prop(t, beFSTree, false, cacheNone) }
func TestPropFSTreeSD1NoCache(t *testing.T)   { prop(t, beFSTree, true, cacheNone) }
func TestPropFSTreeSD0ReadCache(t *testing.T) { prop(t, beFSTree, false, cacheRead) }
func TestPropFSTreeSD1ReadCache(t *testing.T) { prop(t, beFSTree, true, cacheRead) }

// badger: one long-lived database per process and delete mode, key namespace per case
func TestPropBadgerSD0NoCache(t *testing.T)   { prop(t, beBadger, false, cacheNone) }
func TestPropBadgerSD1NoCache(t *testing.T)   { prop(t, beBadger, true, cacheNone) }
func TestPropBadgerSD0ReadCache(t *testing.T) { prop(t, beBadger, false, cacheRead) }
func TestPropBadgerSD1ReadCache(t *testing.T) { prop(t, beBadger, true, cacheRead) }

// ---------------------------------------------------------------- typed vs serialized

// TestPropMatchTypedVsSerialized evaluates one condition on the same record held
// as typed struct, as the serialized form a storage would hand back, and by the
// independent evaluator. No database involved: high volume.
func TestPropMatchTypedVsSerialized(t *testing.T) {
	rapid.Check(t, func(t *rapid.T) {
		c := genContent(t)
		cnd := genCond(t, 3)
		nested := cnd.usesNested()
		if nested && stats.Excl(flagNestedTyped) {
			stats.Excluded(flagNestedTyped)
			cnd.flatten()
			nested = false
		}
		v := encodeValue(reprTyped, c, nil, nil)
		q := query.New("db:").Where(cnd.toQuery())
		if _, err := q.Check(); err != nil {
			t.Fatalf("generated condition %s rejected: %v", cnd, err)
		}

		typed := newRecord("db:k", v)
		typed.UpdateMeta()
		raw, err := typed.MarshalRecord(typed)
		if err != nil {
			t.Fatalf("MarshalRecord: %v", err)
		}
		ser, err := record.NewRawWrapper("db", "k", raw)
		if err != nil {
			t.Fatalf("NewRawWrapper: %v", err)
		}

		want := expect(v, cnd) == mustMatch
		gotTyped := q.MatchesRecord(typed)
		gotSer := q.MatchesRecord(ser)
		if gotTyped != want || gotSer != want {
			t.Fatalf("VIOLATION: record %s, condition %s: typed struct matches=%v, serialized form matches=%v, documented semantics=%v", c, cnd, gotTyped, gotSer, want)
		}
		cls := fmt.Sprintf("diff_depth_%d", cnd.depth())
		classes := []string{"config differential", cls}
		if nested {
			classes = append(classes, "diff_nested_selector")
		}
		if want {
			classes = append(classes, "diff_matching")
		}
		stats.Case("diff|"+c.String()+"|"+cnd.String(), true, classes...)
		if stats.WantSample("differential") {
			stats.Sample("differential", map[string]any{"record": c.String(), "condition": cnd.String(), "matches": want})
		}
	})
}
