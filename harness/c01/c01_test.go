//go:build verif

// Package c01 decides C01: module start/stop order, wanted set, everything stopped.
package c01

import (
	"encoding/json"
	"errors"
	"fmt"
	"os"
	"testing"
	"time"

	"pgregory.net/rapid"

	"verifharness/internal/stats"
	"verifharness/modsim"
)

func TestMain(m *testing.M) { stats.Main(m) }

func genScenario(t *rapid.T) *modsim.Scenario {
	sc := &modsim.Scenario{StartTimeoutMS: 20000, StopTimeoutMS: 20000}
	sc.Modules = modsim.GenGraph(t, 1, 8)
	modsim.GenFaults(t, sc.Modules, []string{"prep", "start", "start", "stop"})
	sc.Mgmt = rapid.Bool().Draw(t, "mgmt")
	sc.Steps = append(sc.Steps, modsim.Step{Op: "start"})
	if sc.Mgmt {
		sc.Enabled = modsim.Subset(t, sc.Modules, "enabled")
		k := rapid.IntRange(0, 6).Draw(t, "mgmtsteps")
		for i := 0; i < k; i++ {
			en := modsim.Subset(t, sc.Modules, "toggle")
			op := rapid.SampledFrom([]string{"enable", "disable"}).Draw(t, "toggleop")
			if len(en) > 0 {
				sc.Steps = append(sc.Steps, modsim.Step{Op: op, Mods: en})
			}
			mg := modsim.Step{Op: "manage"}
			if rapid.IntRange(0, 3).Draw(t, "overlapping_passes") == 0 {
				// one or two further goroutines change what is wanted and ask for a pass at the same time
				for j := rapid.IntRange(1, 2).Draw(t, "concurrent_requests"); j > 0; j-- {
					if ms := modsim.Subset(t, sc.Modules, "ctoggle"); len(ms) > 0 {
						mg.Conc = append(mg.Conc, modsim.Step{Op: rapid.SampledFrom([]string{"enable", "disable"}).Draw(t, "ctoggleop"), Mods: ms})
					}
				}
			}
			sc.Steps = append(sc.Steps, mg)
		}
	}
	// now and then Shutdown is called by two or three goroutines at once (signal handler and API request)
	sc.Steps = append(sc.Steps, modsim.Step{Op: "shutdown", US: rapid.SampledFrom([]int{0, 0, 0, 1, 2}).Draw(t, "extra_shutdown_callers")})
	if sc.Mgmt && rapid.IntRange(0, 3).Draw(t, "manage_during_start") == 0 {
		// ... and management passes are requested while Start is still running
		sc.Steps[0].US = rapid.IntRange(1, 4).Draw(t, "concurrent_manage_callers")
	}
	sc.Delays = modsim.GenDelays(t, sc.Modules, 2)
	// After a Start that failed in a start routine the caller may go on with management passes (retry, switch
	// modules). After a failed prep the module system is not usable beyond Shutdown (see DESIGN.md section 8).
	prepFault := false
	for _, m := range sc.Modules {
		prepFault = prepFault || m.Prep.Fault != ""
	}
	if sc.Mgmt && !prepFault && rapid.Bool().Draw(t, "manage_after_failed_start") {
		sc.ManageAfterFailedStart = true
	}
	// ... but whatever such a caller brings online must still be stopped by Shutdown ("even if another module failed
	// to prep"): with a prep fault the passes are executed in a part of the cases and judged without clause (d).
	if sc.Mgmt && prepFault && rapid.IntRange(0, 2).Draw(t, "manage_after_failed_prep") == 1 {
		sc.ManageAfterFailedStart = true
	}
	return sc
}

func classify(sc *modsim.Scenario, res *modsim.Result) []string {
	cls := []string{fmt.Sprintf("modules_%d", len(sc.Modules))}
	e := sc.Edges()
	switch {
	case e == 0:
		cls = append(cls, "edges_0")
	case e <= 3:
		cls = append(cls, "edges_1-3")
	default:
		cls = append(cls, "edges_4+")
	}
	if sc.Mgmt {
		cls = append(cls, "mgmt_on")
	} else {
		cls = append(cls, "mgmt_off")
	}
	faults := map[string]bool{}
	for _, m := range sc.Modules {
		if m.Prep.Fault != "" {
			faults["fault_prep_"+m.Prep.Fault] = true
		}
		if m.Start.Fault != "" {
			faults["fault_start_"+m.Start.Fault] = true
		}
		if m.Stop.Fault != "" {
			faults["fault_stop_"+m.Stop.Fault] = true
		}
	}
	if len(faults) == 0 {
		cls = append(cls, "fault_none")
	}
	for f := range faults {
		cls = append(cls, f)
	}
	// observed concurrency of start routines
	cur, max := 0, 0
	manage := 0
	for _, ev := range res.Events {
		switch ev.Kind {
		case "start-begin":
			cur++
			if cur > max {
				max = cur
			}
		case "start-end":
			cur--
		case "api":
			if ev.Info == "manage" {
				manage++
			}
			if (ev.Info == "start" || ev.Info == "manage") && ev.ErrNil {
				cls = append(cls, "api_"+ev.Info+"_nil")
			}
		}
	}
	cls = append(cls, fmt.Sprintf("max_concurrent_starts_%d", min(max, 4)))
	if manage > 0 {
		cls = append(cls, "with_manage_steps")
	}
	if sc.Steps[0].US > 0 {
		cls = append(cls, "management_pass_requested_while_start_runs")
	}
	for _, st := range sc.Steps {
		if len(st.Conc) > 0 {
			cls = append(cls, "overlapping_management_passes")
			break
		}
	}
	if sc.Steps[len(sc.Steps)-1].US > 0 {
		cls = append(cls, "shutdown_called_by_several_goroutines")
	}
	startFailed, startedLater := false, false
	for _, ev := range res.Events {
		if ev.Kind == "api" && ev.Info == "start" && !ev.ErrNil {
			startFailed = true
		}
		if startFailed && ev.Kind == "start-end" && ev.Info == "ok" {
			startedLater = true
		}
	}
	if startedLater && len(faults) > 0 {
		for f := range faults {
			if len(f) > 11 && f[:11] == "fault_prep_" {
				cls = append(cls, "module_brought_online_by_a_pass_after_a_failed_prep")
				break
			}
		}
	}
	return cls
}

func runAndJudge(t interface {
	Fatalf(string, ...any)
}, sc *modsim.Scenario) *modsim.Result {
	res, err := modsim.RunScenario(sc, 120*time.Second)
	if errors.Is(err, modsim.ErrChildTimeout) {
		// A hang of Start/ManageModules/Shutdown: with callbacks of <= 3 ms and 20 s timeouts nothing legal takes 120 s.
		b, _ := json.Marshal(sc)
		t.Fatalf("C01-hang: lifecycle child did not terminate within 120 s\nscenario: %s", b)
	}
	if err != nil {
		b, _ := json.Marshal(sc)
		t.Fatalf("C01-crash: %v\nscenario: %s", err, b)
	}
	if v := modsim.CheckC01(sc, res); v != nil {
		b, _ := json.Marshal(sc)
		t.Fatalf("%s\nscenario: %s\nevents:%s", v.Error(), b, modsim.RenderEvents(res.Events, 80))
	}
	return res
}

func TestPropLifecycle(t *testing.T) {
	rapid.Check(t, func(t *rapid.T) {
		sc := genScenario(t)
		if excluded(sc) {
			t.Skip("excluded by an open finding")
		}
		res := runAndJudge(t, sc)
		nontrivial := len(sc.Modules) >= 2 && sc.Edges() >= 1
		stats.Case(sc.Fingerprint(), nontrivial, classify(sc, res)...)
		if nontrivial && stats.WantSample("scenario") {
			stats.Sample("scenario", map[string]any{"scenario": sc, "events": modsim.RenderEvents(res.Events, 40)})
		}
	})
}

// excluded implements the by-construction exclusion classes of open findings (none is open at present).
func excluded(sc *modsim.Scenario) bool {
	return false
}

// TestRegReplayCase re-executes a journalled scenario (./check C01 --replay <file.case>).
func TestRegReplayCase(t *testing.T) {
	p := os.Getenv("VERIF_REPLAY_CASE")
	if p == "" {
		t.Skip("no replay case")
	}
	sc, err := modsim.Load(p)
	if err != nil || len(sc.Modules) == 0 {
		t.Skipf("not a scenario file: %v", err)
	}
	runAndJudge(t, sc)
}

func regScenario(t *testing.T, js string) {
	t.Helper()
	sc := &modsim.Scenario{}
	if err := json.Unmarshal([]byte(js), sc); err != nil {
		t.Fatal(err)
	}
	runAndJudge(t, sc)
}

// fixed finding: a module whose start failed stayed in "starting" and its dependencies were never stopped.
func TestRegFailedStartDependencyStopped(t *testing.T) {
	regScenario(t, `{"modules":[{"name":"m0","prep":{"dur_us":300},"start":{"dur_us":0},"stop":{"dur_us":0}},{"name":"m1","deps":["m0"],"prep":{"dur_us":0},"start":{"dur_us":0,"fault":"panic","panic":"error"},"stop":{"dur_us":3000}}],"mgmt":false,"steps":[{"op":"start"},{"op":"shutdown"}],"start_timeout_ms":20000,"stop_timeout_ms":20000}`)
	regScenario(t, `{"modules":[{"name":"m0","prep":{"dur_us":0},"start":{"dur_us":0},"stop":{"dur_us":0}},{"name":"m1","deps":["m0"],"prep":{"dur_us":0},"start":{"dur_us":0,"fault":"error"},"stop":{"dur_us":0}}],"mgmt":false,"steps":[{"op":"start"},{"op":"shutdown"}],"start_timeout_ms":20000,"stop_timeout_ms":20000}`)
}

// fixed finding: Start returned on the first failure while other start routines were still running; they came
// online after Shutdown had returned and were never stopped.
func TestRegStartFailureWithStartsInFlight(t *testing.T) {
	regScenario(t, `{"modules":[{"name":"m0","prep":{"dur_us":0},"start":{"dur_us":1},"stop":{"dur_us":1}},{"name":"m1","deps":["m0"],"prep":{"dur_us":1},"start":{"dur_us":3000},"stop":{"dur_us":1,"fault":"error"}},{"name":"m2","deps":["m0"],"prep":{"dur_us":0},"start":{"dur_us":1,"fault":"panic","panic":"string"},"stop":{"dur_us":0}},{"name":"m3","deps":["m0"],"prep":{"dur_us":1000},"start":{"dur_us":300},"stop":{"dur_us":3000}},{"name":"m4","deps":["m1","m2","m3"],"prep":{"dur_us":0},"start":{"dur_us":300},"stop":{"dur_us":0}}],"mgmt":true,"enabled":["m2","m4"],"steps":[{"op":"start"},{"op":"shutdown"}],"start_timeout_ms":20000,"stop_timeout_ms":20000}`)
	regScenario(t, `{"modules":[{"name":"a","prep":{"dur_us":0},"start":{"dur_us":20000},"stop":{"dur_us":0}},{"name":"b","prep":{"dur_us":0},"start":{"dur_us":0,"fault":"error"},"stop":{"dur_us":0}}],"mgmt":false,"steps":[{"op":"start"},{"op":"shutdown"}],"start_timeout_ms":20000,"stop_timeout_ms":20000}`)
}
