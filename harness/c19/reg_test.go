package c19

import "testing"

// Regression tests: minimal histories of the findings that were repaired (see known-findings.part).

// Purge kept Versions[boundary:] - the entries whose files it had just deleted.
func TestRegPurgeKeepsRetainedVersions(t *testing.T) {
	for _, keep := range []int{-1, 0, 2} {
		s := newSut(t, mFlags{})
		t.Cleanup(s.close)
		s.prefix = "reg_"
		for _, v := range []string{"2.1.0", "2.0.0", "1.1.0-beta", "1.0.0", "0.9.0"} {
			s.addResource("b/pkg.zip", v, nil, true, false, false)
		}
		s.selectVersions()
		s.getFile("b/pkg.zip")
		s.purge(keep)
		s.checkListing("Purge")
		if s.purgeDeleted == 0 {
			t.Fatalf("harness: Purge(%d) of five available versions deleted nothing", keep)
		}
		// a re-selection picks a version whose file exists
		s.selectVersions()
		s.getFile("b/pkg.zip")
		s.checkListing("GetFile after Purge")
	}
	// unavailable versions only: nothing on disk to look at, the listing must still keep the needed versions
	s := newSut(t, mFlags{})
	defer s.close()
	for _, v := range []string{"0.0.0", "0.0.1", "0.0.2", "0.0.1-beta"} {
		s.addResource("a/res", v, nil, false, true, false)
	}
	s.purge(0)
	s.checkListing("Purge")
}

// Purge searched its boundary on the unsorted version list: a version added after the
// last selection sits at the end and was purged as if it were the oldest.
func TestRegPurgeAfterAddWithoutSelection(t *testing.T) {
	s := newSut(t, mFlags{})
	defer s.close()
	for _, v := range []string{"2.0.0", "1.1.0-beta", "1.0.0"} {
		s.addResource("b/pkg.zip", v, nil, true, false, false)
	}
	s.selectVersions()
	s.getFile("b/pkg.zip")
	s.addResource("b/pkg.zip", "2.1.0", nil, true, false, false)
	s.purge(0)
	s.checkListing("Purge")
	if !fileExists(s.storagePath("b/pkg.zip", "2.1.0")) {
		t.Fatalf("the newest stable version 2.1.0 was purged")
	}
	s.selectVersions()
	s.getFile("b/pkg.zip")
	s.checkListing("GetFile after Purge")
}

// GetSelectedVersions wrote into a nil map (panic while holding the resource lock).
func TestRegGetSelectedVersions(t *testing.T) {
	s := newSut(t, mFlags{})
	defer s.close()
	s.getSelectedVersions() // empty registry
	s.addResource("a/res", "1.0.0", nil, true, false, false)
	s.addResource("b/pkg.zip", "0.0.0", nil, false, true, false)
	s.selectVersions()
	s.getSelectedVersions()
	// and the registry is still usable afterwards (no lock left behind)
	s.selectVersions()
	s.getFile("a/res")
	s.checkListing("GetSelectedVersions")
}
