package c19

import (
	"fmt"
	"strings"
	"sync"
	"testing"

	"verifharness/internal/stats"
)

// TestExhaustiveSelection enumerates every combination of: presence / availability /
// blacklisting of five versions (dev, two stable, two pre-releases), which of the
// present versions is the current release (or none), Online x DevMode x
// UsePreReleases, and the resource's index (none, auto-download, no auto-download,
// pre-release channel) - and compares SelectVersions with the reference cascade.
func TestExhaustiveSelection(t *testing.T) {
	pool := []string{"0.0.0", "1.0.0", "1.1.0-beta", "2.0.0", "2.1.0-rc"}
	indexes := []*mIndex{nil, {name: "stable", autoDownload: true}, {name: "manual"}, {name: "beta", autoDownload: true, preRelease: true}}
	const id = "a/res"

	var mu sync.Mutex
	var total, nontrivial int64
	branchCount := map[string]int64{}
	// one parallel subtest per state of the first version
	t.Run("states", func(t *testing.T) {
		for first := 0; first < 5; first++ {
			first := first
			t.Run(fmt.Sprint(first), func(t *testing.T) {
				t.Parallel()
				tot, non, bc := enumerateSelection(t, pool, indexes, id, first)
				mu.Lock()
				total += tot
				nontrivial += non
				for b, n := range bc {
					branchCount[b] += n
				}
				mu.Unlock()
			})
		}
	})
	stats.CaseN(total, nontrivial, "exhaustive_selection")
	for b, n := range branchCount {
		stats.ClassN("exhaustive_selection_"+b, n)
	}
	for _, b := range []string{branchDev, branchCurrent, branchNewest, branchStable, branchFallback} {
		if branchCount[b] == 0 {
			stats.Warn("exhaustive selection never decided by branch %s", b)
		}
	}
	stats.Exhaustive("selection: {absent,known,available,known+blacklisted,available+blacklisted}^5 versions (0.0.0, 1.0.0, 1.1.0-beta, 2.0.0, 2.1.0-rc) x current release choice x Online x DevMode x UsePreReleases x index {none, auto-download, manual, pre-release channel}")
}

// enumerateSelection runs all combinations in which the first version of the pool has the given state.
// Version states: 0 absent, 1 known, 2 available, 3 known+blacklisted, 4 available+blacklisted.
func enumerateSelection(t *testing.T, pool []string, indexes []*mIndex, id string, first int) (int64, int64, map[string]int64) {
	s := newSut(t, mFlags{})
	s.prefix = "enum_"
	defer s.close()

	var total, nontrivial int64
	branchCount := map[string]int64{}
	state := make([]int, len(pool))
	run := func() {
		var present []int
		for i, st := range state {
			if st != 0 {
				present = append(present, i)
			}
		}
		if len(present) == 0 {
			return
		}
		for cur := -1; cur < len(present); cur++ {
			for _, idx := range indexes {
				// fresh resource
				s.reg.ResetResources()
				s.m = newModel()
				s.trace = s.trace[:0]
				for k, i := range present {
					avail := state[i] == 2 || state[i] == 4
					isCur := k == cur
					pre := idx != nil && idx.preRelease
					if err := s.reg.AddResource(id, pool[i], s.index(idx), avail, isCur, pre); err != nil {
						t.Fatalf("AddResource: %v", err)
					}
					s.m.add(id, pool[i], idx, avail, isCur, pre)
				}
				// "Blacklisted may be set to true if this version should be skipped and not used."
				for _, rv := range s.reg.Export()[id].Versions {
					for _, i := range present {
						if pool[i] == rv.VersionNumber && state[i] >= 3 {
							rv.Blacklisted = true
							s.m.resources[id].versions[pool[i]].blacklisted = true
						}
					}
				}
				res := s.m.resources[id]
				for fl := 0; fl < 8; fl++ {
					f := mFlags{online: fl&1 != 0, devMode: fl&2 != 0, usePre: fl&4 != 0}
					s.reg.Online = f.online
					s.reg.SetDevMode(f.devMode)
					s.reg.SetUsePreReleases(f.usePre)
					s.reg.SelectVersions()
					want, branch := refSelect(res, f, idx)
					got := s.reg.Export()[id].SelectedVersion
					if got == nil || got.VersionNumber != want.num {
						t.Fatalf("flags %+v index %s versions %s: selected %v, the documented order prescribes %s [decided by: %s]", f, idxName(idx), res, got, want, branch)
					}
					total++
					branchCount[branch]++
					if len(present) > 1 {
						nontrivial++
					}
				}
			}
		}
	}
	var rec func(i int)
	rec = func(i int) {
		if i == len(pool) {
			run()
			return
		}
		for st := 0; st < 5; st++ {
			state[i] = st
			rec(i + 1)
		}
	}
	state[0] = first
	rec(1)
	return total, nontrivial, branchCount
}

// TestExhaustivePurge enumerates two-phase histories over a fixed list of versions:
// every version is absent, added (available or not) before the first selection + GetFile,
// or added afterwards; then optionally a second SelectVersions, then Purge(keep).
func TestExhaustivePurge(t *testing.T) {
	pool := []string{"3.0.0-beta", "2.1.0", "2.0.0", "1.1.0-beta", "1.0.0"}
	keeps := []int{0, 2, 3}
	if stats.Thorough() {
		pool = append(pool, "0.9.0")
		keeps = []int{-1, 0, 1, 2, 3, 5}
	}
	const id = "b/pkg.zip"
	var mu sync.Mutex
	var total, nontrivial, effective int64
	t.Run("states", func(t *testing.T) {
		for first := 0; first < 5; first++ {
			first := first
			t.Run(fmt.Sprint(first), func(t *testing.T) {
				t.Parallel()
				tot, non, eff := enumeratePurge(t, pool, keeps, id, first)
				mu.Lock()
				total += tot
				nontrivial += non
				effective += eff
				mu.Unlock()
			})
		}
	})
	stats.CaseN(total, nontrivial, "exhaustive_purge")
	stats.ClassN("exhaustive_purge_deleted_files", effective)
	stats.Exhaustive(fmt.Sprintf("purge: versions %s each {absent, added before / after the first selection, available or not} x UsePreReleases x re-selection before the purge x keep in %v (offline registry, one resource)", strings.Join(pool, ","), keeps))
}

// Version states: 0 absent, 1 phase-1 available, 2 phase-1 known, 3 phase-2 available, 4 phase-2 known.
func enumeratePurge(t *testing.T, pool []string, keeps []int, id string, first int) (total, nontrivial, effective int64) {
	state := make([]int, len(pool))
	run := func() {
		n1, n := 0, 0
		for _, st := range state {
			if st == 1 || st == 2 {
				n1++
			}
			if st != 0 {
				n++
			}
		}
		if n1 == 0 {
			return
		}
		for _, usePre := range []bool{false, true} {
			for _, reselect := range []bool{false, true} {
				for _, keep := range keeps {
					purgeHistory(t, pool, state, id, usePre, reselect, keep, &effective)
					total++
					if n >= 4 {
						nontrivial++
					}
				}
			}
		}
	}
	var rec func(i int)
	rec = func(i int) {
		if i == len(pool) {
			run()
			return
		}
		for st := 0; st < 5; st++ {
			state[i] = st
			rec(i + 1)
		}
	}
	state[0] = first
	rec(1)
	return
}

// purgeHistory runs one enumerated two-phase history.
func purgeHistory(t *testing.T, pool []string, state []int, id string, usePre, reselect bool, keep int, effective *int64) {
	s := newSut(t, mFlags{usePre: usePre})
	defer s.close() // also when a check fails
	s.prefix = "enum_"
	for i, st := range state {
		if st == 1 || st == 2 {
			s.addResource(id, pool[i], nil, st == 1, false, false)
		}
	}
	s.selectVersions()
	s.getFile(id)
	for i, st := range state {
		if st == 3 || st == 4 {
			s.addResource(id, pool[i], nil, st == 3, false, false)
		}
	}
	if reselect {
		s.selectVersions()
	}
	s.checkListing("setup")
	s.purge(keep)
	s.checkListing("Purge")
	// what is selected and handed out afterwards exists
	s.selectVersions()
	s.getFile(id)
	s.checkListing("SelectVersions+GetFile after Purge")
	if s.purgeDeleted > 0 {
		*effective++
	}
}

// TestExhaustiveFileNames: all identifiers over a small alphabet of directory / base / extension parts x versions.
func TestExhaustiveFileNames(t *testing.T) {
	dirs := []string{"", "a/", "a/b-c/", "all/ui_v2/", "x.y/", "pkg_v1-2-3/"}
	bases := []string{"f", "file", "my-file", "my_file", "v", "_v", "f_v", "f_v1", "f_v1-2", "1-2-3", "", "f-v1-2-3"}
	exts := []string{"", ".exe", ".zip", ".tar.gz", ".v2.json", ".1", ".a-b"}
	versions := []string{"0.0.0", "1.2.3", "10.20.30", "1.2.3-beta", "0.1.0-b", "1.0.0-staging", "01.2.3", "1.2.3-v"}
	var n int64
	for _, d := range dirs {
		for _, b := range bases {
			for _, e := range exts {
				if b == "" && e == "" {
					continue // an identifier needs a file name
				}
				for _, v := range versions {
					checkFileName(t, d+b+e, v, d+b+"_v"+strings.ReplaceAll(v, ".", "-")+e)
					n++
				}
			}
		}
	}
	stats.CaseN(n, n, "exhaustive_filenames")
	stats.Exhaustive("file names: 6 directory prefixes x 12 base names x 7 extension forms x 8 versions")
}
