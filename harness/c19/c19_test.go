package c19

import (
	"errors"
	"fmt"
	"io/fs"
	"net/http"
	"net/http/httptest"
	"os"
	"path/filepath"
	"sort"
	"strings"
	"sync"
	"testing"

	"github.com/safing/portbase/log"
	"github.com/safing/portbase/updater"
	"github.com/safing/portbase/utils"
	"pgregory.net/rapid"

	"verifharness/internal/stats"
)

func TestMain(m *testing.M) {
	// portbase's logger is never started here; lines at or above the level
	// would each park a goroutine until log.Start. Only critical lines remain.
	log.SetLogLevel(log.CriticalLevel)
	stats.Main(m)
}

type fataler interface {
	Fatalf(format string, args ...any)
}

// errPanicked ends a case after a panic inside portbase: the resource lock may still be held.
type panicked struct{ what string }

// ---------------------------------------------------------------- system under test + model

type sut struct {
	t       fataler
	dir     string
	reg     *updater.ResourceRegistry
	m       *model
	indexes map[*mIndex]*updater.Index
	files   map[string][2]string // storage path -> (identifier, version) of every file the harness created
	trace   []string
	prefix  string // prefix of the statistics classes ("hist_" for generated histories, "enum_" for enumerations)
	// statistics of this case
	purgeDeleted   int
	branchesSeen   map[string]bool
	idxAmbiguities int
}

// downloads: a loopback update server that has every file. An online registry fetches a selected version that is not
// on disk from it (GetFile); the file then exists, the version is in use, and a later scan lists it as available.
var (
	downloadOnce sync.Once
	downloadURL  string
)

func updateServer() string {
	downloadOnce.Do(func() {
		srv := httptest.NewServer(http.HandlerFunc(func(w http.ResponseWriter, r *http.Request) {
			_, _ = w.Write([]byte("c19 download of " + r.URL.Path + "\n"))
		}))
		downloadURL = srv.URL + "/"
	})
	return downloadURL
}

func newSut(t fataler, f mFlags) *sut {
	dir, err := os.MkdirTemp("/dev/shm", "c19-")
	if err != nil {
		t.Fatalf("harness: MkdirTemp: %v", err)
	}
	s := &sut{t: t, dir: filepath.Join(dir, "storage"), m: newModel(), indexes: map[*mIndex]*updater.Index{}, files: map[string][2]string{}, branchesSeen: map[string]bool{}}
	s.reg = &updater.ResourceRegistry{Name: "c19", Online: f.online, DevMode: f.devMode, UsePreReleases: f.usePre, UpdateURLs: []string{updateServer()}}
	s.m.flags = f
	if err := s.reg.Initialize(utils.NewDirStructure(s.dir, 0o755)); err != nil {
		t.Fatalf("harness: Initialize: %v", err)
	}
	s.logf("registry online=%v devMode=%v usePreReleases=%v", f.online, f.devMode, f.usePre)
	return s
}

func (s *sut) close() { _ = os.RemoveAll(filepath.Dir(s.dir)) }

func (s *sut) class(name string) { stats.Class(s.prefix + name) }

func (s *sut) logf(format string, a ...any) { s.trace = append(s.trace, fmt.Sprintf(format, a...)) }

func (s *sut) failf(format string, a ...any) {
	s.t.Fatalf("%s\nhistory:\n  %s\nmodel:\n  %s", fmt.Sprintf(format, a...), strings.Join(s.trace, "\n  "), s.describe())
}

func (s *sut) describe() string {
	var parts []string
	for _, id := range s.m.ids() {
		parts = append(parts, s.m.resources[id].String())
	}
	return strings.Join(parts, "\n  ")
}

// call runs a registry call and converts a panic into a failure that ends the case.
func (s *sut) call(what string, f func()) {
	defer func() {
		if r := recover(); r != nil {
			s.failf("%s panicked: %v (a lock may still be held, the case ends here)", what, r)
		}
	}()
	f()
}

func (s *sut) index(mi *mIndex) *updater.Index {
	if mi == nil {
		return nil
	}
	idx := s.indexes[mi]
	if idx == nil {
		idx = &updater.Index{Path: mi.name + ".json", Channel: mi.name, AutoDownload: mi.autoDownload, PreRelease: mi.preRelease}
		s.indexes[mi] = idx
	}
	return idx
}

func (s *sut) storagePath(id, version string) string {
	return filepath.Join(s.dir, filepath.FromSlash(updater.GetVersionedPath(id, version)))
}

// putFile creates the resource file on disk.
func (s *sut) putFile(id, version string) {
	p := s.storagePath(id, version)
	if err := os.MkdirAll(filepath.Dir(p), 0o755); err != nil {
		s.t.Fatalf("harness: %v", err)
	}
	if err := os.WriteFile(p, []byte(id+" "+version), 0o644); err != nil {
		s.t.Fatalf("harness: %v", err)
	}
	s.files[p] = [2]string{id, version}
}

func fileExists(p string) bool {
	fi, err := os.Lstat(p)
	return err == nil && fi.Mode().IsRegular()
}

// diskFiles lists every regular file below the storage dir (outside tmp).
func (s *sut) diskFiles() map[string]bool {
	out := map[string]bool{}
	tmp := filepath.Join(s.dir, "tmp")
	err := filepath.Walk(s.dir, func(p string, info fs.FileInfo, err error) error {
		if err != nil {
			return err
		}
		if p == tmp {
			return filepath.SkipDir
		}
		if info.Mode().IsRegular() {
			out[p] = true
		}
		return nil
	})
	if err != nil {
		s.t.Fatalf("harness: walk: %v", err)
	}
	return out
}

// ---------------------------------------------------------------- operations

func (s *sut) addResource(id, version string, mi *mIndex, available, current, pre bool) {
	if available {
		s.putFile(id, version) // files of available versions really exist
	}
	s.logf("AddResource(%q, %q, index=%s, available=%v, currentRelease=%v, preRelease=%v)", id, version, idxName(mi), available, current, pre)
	var err error
	s.call("AddResource", func() { err = s.reg.AddResource(id, version, s.index(mi), available, current, pre) })
	if err != nil {
		s.failf("AddResource(%q, %q) failed: %v", id, version, err)
	}
	s.m.add(id, version, mi, available, current, pre)
}

func (s *sut) addResources(versions map[string]string, mi *mIndex, available, current, pre bool) {
	ids := make([]string, 0, len(versions))
	for id := range versions {
		ids = append(ids, id)
	}
	sort.Strings(ids)
	for _, id := range ids {
		if available {
			s.putFile(id, versions[id])
		}
	}
	s.logf("AddResources(%v, index=%s, available=%v, currentRelease=%v, preRelease=%v)", versions, idxName(mi), available, current, pre)
	var err error
	s.call("AddResources", func() { err = s.reg.AddResources(versions, s.index(mi), available, current, pre) })
	if err != nil {
		s.failf("AddResources(%v) failed: %v", versions, err)
	}
	for _, id := range ids {
		s.m.add(id, versions[id], mi, available, current, pre)
	}
}

func idxName(mi *mIndex) string {
	if mi == nil {
		return "nil"
	}
	return fmt.Sprintf("%s{AutoDownload:%v,PreRelease:%v}", mi.name, mi.autoDownload, mi.preRelease)
}

// scan runs ScanStorage("") - every file on disk becomes an available version.
func (s *sut) scan() {
	s.logf("ScanStorage(\"\")")
	var err error
	s.call("ScanStorage", func() { err = s.reg.ScanStorage("") })
	if err != nil {
		s.failf("ScanStorage(\"\") failed: %v", err)
	}
	disk := s.diskFiles()
	paths := make([]string, 0, len(disk))
	for p := range disk {
		paths = append(paths, p)
	}
	sort.Strings(paths)
	for _, p := range paths {
		iv, ok := s.files[p]
		if !ok {
			s.failf("harness: unknown file %s in the storage dir", p)
		}
		s.m.add(iv[0], iv[1], nil, true, false, false)
	}
}

func (s *sut) setFlags(f mFlags) {
	s.logf("set Online=%v DevMode=%v UsePreReleases=%v", f.online, f.devMode, f.usePre)
	s.reg.Online = f.online
	s.reg.SetDevMode(f.devMode)
	s.reg.SetUsePreReleases(f.usePre)
	s.m.flags = f
}

// modelSelect computes the reference selection(s) of a resource: one per reading of "its index".
func (s *sut) modelSelect(res *mResource) (a, b *mVersion, branch string) {
	a, branch = refSelect(res, s.m.flags, res.lastAddIndex)
	b, _ = refSelect(res, s.m.flags, res.lastRealIdx)
	return
}

// expectSelection compares the registry's selected version of a resource with the reference and adopts it.
func (s *sut) expectSelection(what string, res *mResource, got *updater.ResourceVersion) {
	a, b, branch := s.modelSelect(res)
	gotNum := "<none>"
	if got != nil {
		gotNum = got.VersionNumber
	}
	var pick *mVersion
	switch {
	case a != nil && gotNum == a.num:
		pick = a
	case b != nil && gotNum == b.num:
		pick = b
	case a == nil && got == nil:
	default:
		want := a.String()
		if a != b {
			want += " (or " + b.String() + " if a storage scan does not detach a resource from its index)"
		}
		s.failf("%s: resource %s: selected version is %s, the documented order prescribes %s [decided by: %s]", what, res.id, gotNum, want, branch)
	}
	if a != b {
		s.idxAmbiguities++
		s.class("selection_index_reading_matters")
	}
	res.selected = pick
	s.branchesSeen[branch] = true
	s.class("selection_" + branch)
	if pick != nil && pick.blacklisted {
		s.class("selection_picked_blacklisted_" + branch)
	}
}

func (s *sut) selectVersions() {
	s.logf("SelectVersions()")
	s.call("SelectVersions", func() { s.reg.SelectVersions() })
	exp := s.export("SelectVersions")
	for _, id := range s.m.ids() {
		s.expectSelection("after SelectVersions()", s.m.resources[id], exp[id].SelectedVersion)
	}
}

func (s *sut) export(after string) map[string]*updater.Resource {
	var exp map[string]*updater.Resource
	s.call("Export (after "+after+")", func() { exp = s.reg.Export() })
	return exp
}

// blacklist blacklists one known version through the File API.
func (s *sut) blacklist(id, version string) {
	res := s.m.resources[id]
	mv := res.versions[version]
	exp := s.export("-")
	var rv *updater.ResourceVersion
	for _, x := range exp[id].Versions {
		if x.VersionNumber == version {
			rv = x
		}
	}
	if rv == nil {
		s.failf("harness: version %s of %s not listed", version, id)
	}
	nonBlacklisted, nonBlacklistedNonDev := 0, 0
	for _, v := range res.versions {
		if !v.blacklisted {
			nonBlacklisted++
			if !v.v.isDev() {
				nonBlacklistedNonDev++
			}
		}
	}
	isLast := !mv.blacklisted && nonBlacklisted == 1
	if nonBlacklistedNonDev <= 1 {
		s.class("blacklist_attempt_on_last_version")
	} else {
		s.class("blacklist_attempt_with_alternatives")
	}
	s.logf("Blacklist(%q version %s)", id, version)
	var err error
	s.call("Blacklist", func() { err = rv.GetFile().Blacklist() })
	if err != nil {
		s.class("blacklist_refused")
		if nonBlacklistedNonDev >= 2 {
			// "Blacklist blacklists the specified version and selects a new version."
			s.failf("Blacklist(%s of %s) was refused (%v) although %d other non-blacklisted versions exist", version, id, err, nonBlacklistedNonDev-1)
		}
		return // nothing may have changed: the listing comparison checks that
	}
	s.class("blacklist_accepted")
	if isLast {
		s.failf("Blacklist(%s of %s) succeeded although it is the last non-blacklisted version", version, id)
	}
	mv.blacklisted = true
	stillUsable := false
	for _, v := range res.versions {
		if !v.blacklisted {
			stillUsable = true
		}
	}
	if !stillUsable {
		s.failf("after Blacklist(%s of %s) every version is blacklisted", version, id)
	}
	// Blacklist selects a new version.
	exp = s.export("Blacklist")
	s.expectSelection(fmt.Sprintf("after Blacklist(%s)", version), res, exp[id].SelectedVersion)
}

// getFile requests the selected file of a resource. The caller guarantees that no download can start.
func (s *sut) getFile(id string) {
	res := s.m.resources[id]
	s.logf("GetFile(%q)", id)
	var f *updater.File
	var err error
	s.call("GetFile", func() { f, err = s.reg.GetFile(id) })
	if res == nil {
		if !errors.Is(err, updater.ErrNotFound) {
			s.failf("GetFile(%q) of an unknown resource returned (%v, %v), want ErrNotFound", id, f, err)
		}
		return
	}
	if res.selected == nil {
		// "check if version is selected": GetFile selects when nothing is selected yet.
		exp := s.export("GetFile")
		s.expectSelection("GetFile (first selection)", res, exp[id].SelectedVersion)
	}
	sel := res.selected
	if !sel.available && s.m.flags.online {
		// the registry downloads the selected version from the update server
		if err != nil {
			s.failf("GetFile(%q) failed (%v) although the registry is online and the update server has every file", id, err)
		}
		if f.Version() != sel.num {
			s.failf("GetFile(%q) handed out version %s, the selected version is %s", id, f.Version(), sel)
		}
		want := s.storagePath(id, sel.num)
		if f.Path() != want || !fileExists(want) {
			s.failf("GetFile(%q) downloaded the selected version %s but %s does not exist (Path() = %s)", id, sel, want, f.Path())
		}
		s.files[want] = [2]string{id, sel.num}
		res.active = sel
		s.class("getfile_downloaded")
		return
	}
	if !sel.available {
		if err == nil {
			s.failf("GetFile(%q) returned version %s although the selected version %s is not available locally and the registry is offline", id, f.Version(), sel)
		}
		s.class("getfile_not_available")
		return
	}
	if err != nil {
		s.failf("GetFile(%q) failed (%v) although the selected version %s is available", id, err, sel)
	}
	if f.Version() != sel.num {
		s.failf("GetFile(%q) handed out version %s, the selected version is %s", id, f.Version(), sel)
	}
	if want := s.storagePath(id, sel.num); f.Path() != want {
		s.failf("GetFile(%q).Path() = %s, want %s", id, f.Path(), want)
	}
	if !fileExists(f.Path()) {
		s.failf("GetFile(%q) handed out %s which does not exist on disk", id, f.Path())
	}
	res.active = sel
	s.class("getfile_ok")
}

func (s *sut) getSelectedVersions() {
	s.logf("GetSelectedVersions()")
	var got map[string]string
	s.call("GetSelectedVersions", func() { got = s.reg.GetSelectedVersions() })
	want := map[string]string{}
	for id, res := range s.m.resources {
		want[id] = res.selected.num
	}
	if len(got) != len(want) {
		s.failf("GetSelectedVersions() = %v, want %v", got, want)
	}
	for id, v := range want {
		if got[id] != v {
			s.failf("GetSelectedVersions() = %v, want %v", got, want)
		}
	}
	s.class("getselectedversions_ok")
}

// purge runs Purge(keep) and checks the statement's disk invariants.
func (s *sut) purge(keep int) { s.purgeVia(keep, false) }

// purgeVia: through the registry, or (direct) by calling the exported Purge of every resource object itself, as the
// registry does - the guarantees are those of the resource.
func (s *sut) purgeVia(keep int, direct bool) {
	before := s.diskFiles()
	if direct {
		s.logf("Resource.Purge(%d) on every resource", keep)
		s.call("Resource.Purge", func() {
			for id := range s.m.resources {
				if res := updater.VerifResource(s.reg, id); res != nil {
					res.Purge(keep)
				}
			}
		})
		s.class("purge_called_on_the_resources_directly")
	} else {
		s.logf("Purge(%d)", keep)
		s.call("Purge", func() { s.reg.Purge(keep) })
	}
	after := s.diskFiles()
	exp := s.export("Purge")

	for p := range after {
		if !before[p] {
			s.failf("Purge(%d) created %s", keep, p)
		}
	}
	deleted := map[string]bool{}
	for p := range before {
		if !after[p] {
			deleted[p] = true
		}
	}
	requested := keep
	if keep < 0 {
		keep = 0
	}
	ndeleted := 0
	for _, id := range s.m.ids() {
		res := s.m.resources[id]
		needed := map[*mVersion]string{}
		if res.active != nil {
			needed[res.active] = "active"
		}
		if res.selected != nil {
			needed[res.selected] = "selected"
		}
		if ns := res.newestStable(); ns != nil {
			needed[ns] = "newest stable"
		}
		listed := map[string]*updater.ResourceVersion{}
		for _, rv := range exp[id].Versions {
			listed[rv.VersionNumber] = rv
		}
		further, furtherUndeleted, furtherWithFileBefore, furtherWithFileAfter := 0, 0, 0, 0
		for _, v := range res.sorted() {
			p := s.storagePath(id, v.num)
			why, isNeeded := needed[v]
			if isNeeded && deleted[p] {
				s.failf("Purge(%d) deleted the file of the %s version %s of %s", keep, why, v, id)
			}
			if isNeeded && listed[v.num] == nil {
				s.failf("Purge(%d): the %s version %s of %s is no longer listed by the resource", keep, why, v, id)
			}
			if !isNeeded {
				further++
				if !deleted[p] {
					furtherUndeleted++
				}
				if before[p] {
					furtherWithFileBefore++
				}
				if after[p] {
					furtherWithFileAfter++
				}
			}
			if after[p] && listed[v.num] == nil && v.available {
				// "remove entries of deleted files": an entry whose file was kept stays. (Only for files the registry
				// knows of: a downloaded file is not listed as available before the next scan, its entry may go.)
				s.failf("Purge(%d): version %s of %s is no longer listed although its file %s was kept", keep, v, id, p)
			}
			if deleted[p] {
				ndeleted++
			}
		}
		want := keep
		if further < want {
			want = further
		}
		if furtherUndeleted < want {
			s.failf("Purge(%d) kept only %d of %d further versions of %s (besides active/selected/newest stable)", keep, furtherUndeleted, further, id)
		}
		wantFiles := keep
		if furtherWithFileBefore < wantFiles {
			wantFiles = furtherWithFileBefore
		}
		if furtherWithFileAfter < wantFiles {
			// Not asserted: the kept further versions may be ones that never had a file (see NOTES.md).
			s.class("purge_kept_further_versions_without_files")
		}
		// the resource lists as available only versions whose files exist
		for num, rv := range listed {
			if res.versions[num] == nil {
				s.failf("Purge(%d): resource %s lists version %s which was never added", keep, id, num)
			}
			if rv.Available && !fileExists(s.storagePath(id, num)) {
				s.failf("Purge(%d): resource %s lists version %s as available but its file %s does not exist", keep, id, num, s.storagePath(id, num))
			}
		}
		// adopt the listing
		for num, v := range res.versions {
			if listed[num] == nil {
				delete(res.versions, num)
				_ = v
			} else if deleted[s.storagePath(id, num)] {
				// A retained entry whose file was deleted must not stay available (checked above).
				v.available = false
			}
		}
	}
	// only files of known versions may disappear
	for p := range deleted {
		iv, ok := s.files[p]
		if !ok || s.m.resources[iv[0]] == nil {
			s.failf("Purge(%d) deleted %s which belongs to no resource of the registry", keep, p)
		}
	}
	if ndeleted > 0 {
		s.purgeDeleted += ndeleted
		s.class("purge_deleted_files")
	} else {
		s.class("purge_deleted_nothing")
	}
	s.class(fmt.Sprintf("purge_keep_%d", requested))
}

// checkListing compares what the registry lists with the model after every step.
func (s *sut) checkListing(after string) {
	exp := s.export(after)
	if len(exp) != len(s.m.resources) {
		s.failf("after %s: registry holds %d resources, model %d", after, len(exp), len(s.m.resources))
	}
	for _, id := range s.m.ids() {
		res := s.m.resources[id]
		r := exp[id]
		if r == nil {
			s.failf("after %s: resource %s missing from the registry", after, id)
		}
		if len(r.Versions) != len(res.versions) {
			s.failf("after %s: resource %s lists %v, model has %d versions", after, id, r.Versions, len(res.versions))
		}
		for _, rv := range r.Versions {
			mv := res.versions[rv.VersionNumber]
			if mv == nil {
				s.failf("after %s: resource %s lists unknown version %s", after, id, rv.VersionNumber)
			}
			if rv.Available != mv.available || rv.CurrentRelease != mv.current || rv.PreRelease != mv.preRelease || rv.Blacklisted != mv.blacklisted {
				s.failf("after %s: resource %s version %s has flags available=%v current=%v pre=%v blacklisted=%v, model %s", after, id, rv.VersionNumber, rv.Available, rv.CurrentRelease, rv.PreRelease, rv.Blacklisted, mv)
			}
			if rv.Available && !fileExists(s.storagePath(id, rv.VersionNumber)) {
				s.failf("after %s: resource %s lists version %s as available but its file does not exist", after, id, rv.VersionNumber)
			}
		}
		num := func(rv *updater.ResourceVersion) string {
			if rv == nil {
				return "<none>"
			}
			return rv.VersionNumber
		}
		mnum := func(v *mVersion) string {
			if v == nil {
				return "<none>"
			}
			return v.num
		}
		if num(r.SelectedVersion) != mnum(res.selected) {
			s.failf("after %s: resource %s has selected version %s, expected %s (selection only changes on SelectVersions/Blacklist/first GetFile)", after, id, num(r.SelectedVersion), mnum(res.selected))
		}
		if num(r.ActiveVersion) != mnum(res.active) {
			s.failf("after %s: resource %s has active version %s, expected %s", after, id, num(r.ActiveVersion), mnum(res.active))
		}
	}
}

// ---------------------------------------------------------------- generators

var identifiers = []string{"a/res", "b/pkg.zip", "c/d/tool.tar.gz"}

var preTags = []string{"beta", "alpha", "rc", "staging", "b"}

// genVersion draws a normalised version string: stable, pre-release, or the dev version 0.0.0.
func genVersion(t *rapid.T) string {
	switch k := rapid.IntRange(0, 9).Draw(t, "versionKind"); {
	case k == 0:
		return "0.0.0"
	case k <= 5:
		return fmt.Sprintf("%d.%d.%d", rapid.IntRange(0, 2).Draw(t, "major"), rapid.IntRange(0, 2).Draw(t, "minor"), rapid.IntRange(1, 3).Draw(t, "patch"))
	default:
		return fmt.Sprintf("%d.%d.%d-%s", rapid.IntRange(0, 2).Draw(t, "major"), rapid.IntRange(0, 2).Draw(t, "minor"), rapid.IntRange(1, 3).Draw(t, "patch"), rapid.SampledFrom(preTags).Draw(t, "tag"))
	}
}

func genFlags(t *rapid.T) mFlags {
	return mFlags{
		online:  rapid.Bool().Draw(t, "online"),
		devMode: rapid.Bool().Draw(t, "devMode"),
		usePre:  rapid.Bool().Draw(t, "usePreReleases"),
	}
}

// canGetFile tells whether GetFile can be called without starting a download
// (which would retry for 30 s): the registry is offline or the version that
// will be handed out is available locally.
func (s *sut) canGetFile(id string) bool {
	res := s.m.resources[id]
	if res == nil || !s.m.flags.online || downloadsEnabled {
		return true
	}
	if res.selected != nil {
		return res.selected.available
	}
	a, b, _ := s.modelSelect(res)
	return a != nil && a.available && b.available
}

// downloadsEnabled: GetFile may be called when it will download (the loopback update server answers at once).
var downloadsEnabled = true

func TestPropRegistryHistory(t *testing.T) {
	rapid.Check(t, func(t *rapid.T) {
		s := newSut(t, genFlags(t))
		s.prefix = "hist_"
		defer s.close()
		idxAuto := &mIndex{name: "stable", autoDownload: true}
		idxManual := &mIndex{name: "manual", autoDownload: false}
		idxBeta := &mIndex{name: "beta", autoDownload: true, preRelease: true}
		genIndex := rapid.SampledFrom([]*mIndex{nil, idxAuto, idxAuto, idxManual, idxBeta})
		// most activity on one resource, so that it collects enough versions for a purge to matter
		genID := rapid.SampledFrom([]string{identifiers[0], identifiers[0], identifiers[0], identifiers[1], identifiers[2]})

		steps := rapid.IntRange(3, 40).Draw(t, "steps")
		for i := 0; i < steps; i++ {
			action := rapid.SampledFrom([]string{
				"add", "add", "add", "add", "addBurst", "addMany", "dropFile", "scan", "flags",
				"select", "select", "select", "blacklist", "getFile", "getFile", "purge", "purge", "getSelected",
			}).Draw(t, "action")
			switch action {
			case "add":
				idx := genIndex.Draw(t, "index")
				pre := idx != nil && idx.preRelease
				s.addResource(genID.Draw(t, "id"), genVersion(t), idx, rapid.IntRange(0, 2).Draw(t, "available") > 0, rapid.IntRange(0, 4).Draw(t, "current") == 0, pre)
			case "addBurst":
				// a storage dir that collected several old versions
				id := genID.Draw(t, "id")
				n := rapid.IntRange(2, 5).Draw(t, "burst")
				for k := 0; k < n; k++ {
					s.addResource(id, genVersion(t), nil, rapid.IntRange(0, 4).Draw(t, "available") > 0, false, false)
				}
			case "addMany":
				idx := genIndex.Draw(t, "index")
				versions := map[string]string{}
				for _, id := range identifiers {
					if rapid.Bool().Draw(t, "include") {
						versions[id] = genVersion(t)
					}
				}
				if len(versions) == 0 {
					continue
				}
				// like loading an index file: not available, current release
				avail := rapid.IntRange(0, 3).Draw(t, "available") == 0
				s.addResources(versions, idx, avail, rapid.Bool().Draw(t, "current"), idx != nil && idx.preRelease)
			case "dropFile":
				id, v := genID.Draw(t, "id"), genVersion(t)
				s.logf("(file %s appears on disk)", updater.GetVersionedPath(id, v))
				s.putFile(id, v)
				s.scan() // the registry learns about files only through a scan; keep "available => file exists" and the reverse simple
			case "scan":
				s.scan()
			case "flags":
				s.setFlags(genFlags(t))
			case "select":
				s.selectVersions()
			case "blacklist":
				if len(s.m.resources) == 0 {
					continue
				}
				res := s.m.resources[rapid.SampledFrom(s.m.ids()).Draw(t, "id")]
				var nums []string
				for _, v := range res.sorted() {
					nums = append(nums, v.num)
				}
				num := rapid.SampledFrom(nums).Draw(t, "version")
				if res.selected != nil && rapid.Bool().Draw(t, "blacklistSelected") {
					num = res.selected.num
				}
				s.blacklist(res.id, num)
			case "getFile":
				id := genID.Draw(t, "id")
				if !s.canGetFile(id) {
					s.class("getfile_skipped_would_download")
					continue
				}
				s.getFile(id)
			case "purge":
				s.purgeVia(rapid.SampledFrom([]int{2, 3, 0, 1, -1, 4, 5}).Draw(t, "keep"), rapid.IntRange(0, 2).Draw(t, "purge_direct") == 0)
			case "getSelected":
				ok := true
				for _, res := range s.m.resources {
					if res.selected == nil {
						ok = false // a resource without a selected version: not defined by the documentation, not exercised
					}
				}
				if !ok {
					s.class("getselectedversions_skipped_unselected_resource")
					continue
				}
				s.getSelectedVersions()
			}
			s.checkListing(action)
		}
		nontrivial := len(s.branchesSeen) > 0
		stats.Case(strings.Join(s.trace, "\n"), nontrivial)
		if s.purgeDeleted > 0 {
			s.class("case_with_effective_purge")
		}
		if s.idxAmbiguities > 0 {
			s.class("case_where_index_reading_matters")
		}
		if stats.WantSample("history") && s.purgeDeleted > 0 {
			stats.Sample("history", s.trace)
		}
	})
}
