// Package c19 decides C19: the updater selects the version the documented
// order prescribes, a purge keeps what is needed, and versioned file names
// convert to (identifier, version) pairs and back without loss.
package c19

import (
	"fmt"
	"sort"
	"strconv"
	"strings"
)

// ---------------------------------------------------------------- versions

// ver is an independently parsed semantic version of the documented form
// N.N.N or N.N.N-tag (tag = lower-case letters).
type ver struct {
	core [3]int
	pre  string
}

func parseVer(s string) ver {
	var v ver
	main := s
	if i := strings.IndexByte(s, '-'); i >= 0 {
		main, v.pre = s[:i], s[i+1:]
	}
	parts := strings.Split(main, ".")
	if len(parts) != 3 {
		panic("harness: not a three part version: " + s)
	}
	for i, p := range parts {
		n, err := strconv.Atoi(p)
		if err != nil {
			panic("harness: bad version " + s)
		}
		v.core[i] = n
	}
	return v
}

func (v ver) String() string {
	s := fmt.Sprintf("%d.%d.%d", v.core[0], v.core[1], v.core[2])
	if v.pre != "" {
		s += "-" + v.pre
	}
	return s
}

// cmpVer orders versions by semantic-version precedence: numeric core first,
// a pre-release sorts before its release, pre-release tags alphabetically.
func cmpVer(a, b ver) int {
	for i := 0; i < 3; i++ {
		if a.core[i] != b.core[i] {
			if a.core[i] < b.core[i] {
				return -1
			}
			return 1
		}
	}
	switch {
	case a.pre == b.pre:
		return 0
	case a.pre == "":
		return 1
	case b.pre == "":
		return -1
	case a.pre < b.pre:
		return -1
	default:
		return 1
	}
}

func (v ver) isDev() bool { return v.core == [3]int{0, 0, 0} && v.pre == "" }

// ---------------------------------------------------------------- model

type mIndex struct {
	name         string
	autoDownload bool
	preRelease   bool
}

type mVersion struct {
	num         string
	v           ver
	available   bool
	current     bool
	preRelease  bool
	blacklisted bool
}

type mResource struct {
	id       string
	versions map[string]*mVersion
	// The index a resource "was last defined in". The field documentation says
	// it is nil "if the resource was only found on disk"; the code also resets
	// it when a resource that is part of an index is found again by a storage
	// scan. The statement does not settle this, so both readings are tracked
	// and both resulting selections are accepted where they differ.
	lastAddIndex *mIndex // reading A: index of the most recent add (nil for a scan)
	lastRealIdx  *mIndex // reading B: most recent index that defined the resource
	selected     *mVersion
	active       *mVersion
}

type mFlags struct {
	online, devMode, usePre bool
}

type model struct {
	flags     mFlags
	resources map[string]*mResource
}

func newModel() *model { return &model{resources: map[string]*mResource{}} }

func (m *model) ids() []string {
	var out []string
	for id := range m.resources {
		out = append(out, id)
	}
	sort.Strings(out)
	return out
}

// add mirrors the documented effect of AddResource/AddVersion: flags are only
// ever raised, a new current release replaces the previous one, a version with
// a pre-release tag is a pre-release.
func (m *model) add(id, version string, idx *mIndex, available, current, preRelease bool) {
	res := m.resources[id]
	if res == nil {
		res = &mResource{id: id, versions: map[string]*mVersion{}}
		m.resources[id] = res
	}
	res.lastAddIndex = idx
	if idx != nil {
		res.lastRealIdx = idx
	}
	if current {
		for _, v := range res.versions {
			v.current = false
		}
	}
	mv := res.versions[version]
	if mv == nil {
		mv = &mVersion{num: version, v: parseVer(version)}
		res.versions[version] = mv
	}
	if available {
		mv.available = true
	}
	if current {
		mv.current = true
	}
	if preRelease || mv.v.pre != "" {
		mv.preRelease = true
	}
}

func (res *mResource) sorted() []*mVersion {
	out := make([]*mVersion, 0, len(res.versions))
	for _, v := range res.versions {
		out = append(out, v)
	}
	sort.Slice(out, func(i, j int) bool { return cmpVer(out[i].v, out[j].v) > 0 })
	return out
}

// selectable: "A version is selectable if it's not blacklisted and either
// already locally available or ready to be downloaded" (resource.go); ready to
// be downloaded = the registry is online and the resource is part of an index
// that may download automatically.
func selectable(v *mVersion, downloadable bool) bool {
	return !v.blacklisted && (v.available || downloadable)
}

const (
	branchNone     = "no_versions"
	branchDev      = "dev_version"
	branchCurrent  = "current_release"
	branchNewest   = "newest_selectable_with_prereleases"
	branchStable   = "newest_selectable_stable"
	branchFallback = "fallback_newest"
)

// refSelect is the selection cascade written from the property statement:
// the locally available dev version in dev mode, else the current release if
// selectable, else (with pre-releases enabled) the newest selectable version,
// else the newest selectable stable version, else the newest version.
func refSelect(res *mResource, f mFlags, idx *mIndex) (*mVersion, string) {
	vs := res.sorted()
	if len(vs) == 0 {
		return nil, branchNone
	}
	downloadable := f.online && idx != nil && idx.autoDownload
	if f.devMode {
		for _, v := range vs {
			if v.v.isDev() && v.available {
				return v, branchDev
			}
		}
	}
	for _, v := range vs {
		if v.current && selectable(v, downloadable) {
			return v, branchCurrent
		}
	}
	if f.usePre {
		for _, v := range vs {
			if selectable(v, downloadable) {
				return v, branchNewest
			}
		}
	}
	for _, v := range vs {
		if !v.preRelease && selectable(v, downloadable) {
			return v, branchStable
		}
	}
	return vs[0], branchFallback
}

// newestStable returns the newest version that is not a pre-release.
func (res *mResource) newestStable() *mVersion {
	for _, v := range res.sorted() {
		if !v.preRelease {
			return v
		}
	}
	return nil
}

func (res *mResource) hasBlacklisted() bool {
	for _, v := range res.versions {
		if v.blacklisted {
			return true
		}
	}
	return false
}

func (v *mVersion) String() string {
	if v == nil {
		return "<none>"
	}
	var fl []string
	if v.available {
		fl = append(fl, "avail")
	}
	if v.current {
		fl = append(fl, "current")
	}
	if v.preRelease {
		fl = append(fl, "pre")
	}
	if v.blacklisted {
		fl = append(fl, "blacklisted")
	}
	return v.num + "[" + strings.Join(fl, ",") + "]"
}

func (res *mResource) String() string {
	var parts []string
	for _, v := range res.sorted() {
		parts = append(parts, v.String())
	}
	idx := func(i *mIndex) string {
		if i == nil {
			return "nil"
		}
		return fmt.Sprintf("%s(auto=%v)", i.name, i.autoDownload)
	}
	return fmt.Sprintf("%s{%s; index last-add=%s last-real=%s; selected=%v active=%v}", res.id, strings.Join(parts, " "), idx(res.lastAddIndex), idx(res.lastRealIdx), res.selected, res.active)
}
