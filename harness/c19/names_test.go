package c19

import (
	"regexp"
	"strings"
	"testing"

	"github.com/safing/portbase/updater"
	"pgregory.net/rapid"

	"verifharness/internal/stats"
)

// versionPattern is the documented versioned-file-name marker (filename.go).
var versionPattern = regexp.MustCompile(`_v[0-9]+-[0-9]+-[0-9]+`)

// checkFileName checks both conversion directions for one identifier/version pair;
// name is the conforming file name (version marker between base name and extensions).
func checkFileName(t fataler, identifier, version, name string) {
	got := updater.GetVersionedPath(identifier, version)
	if got != name {
		t.Fatalf("GetVersionedPath(%q, %q) = %q, the documented form is %q", identifier, version, got, name)
	}
	id, v, ok := updater.GetIdentifierAndVersion(name)
	if !ok || id != identifier || v != version {
		t.Fatalf("GetIdentifierAndVersion(%q) = (%q, %q, %v), want (%q, %q, true)", name, id, v, ok, identifier, version)
	}
	if back := updater.GetVersionedPath(id, v); back != name {
		t.Fatalf("GetVersionedPath(GetIdentifierAndVersion(%q)) = %q", name, back)
	}
	// an identifier without version marker is not a versioned name
	if _, _, ok := updater.GetIdentifierAndVersion(identifier); ok {
		t.Fatalf("GetIdentifierAndVersion(%q) accepted a name without version", identifier)
	}
}

const nameChars = "abcxyz019_-v"

func genPart(min, max int) *rapid.Generator[string] {
	return rapid.Custom(func(t *rapid.T) string {
		n := rapid.IntRange(min, max).Draw(t, "len")
		var b strings.Builder
		for i := 0; i < n; i++ {
			b.WriteByte(nameChars[rapid.IntRange(0, len(nameChars)-1).Draw(t, "c")])
		}
		return b.String()
	})
}

func TestPropFileNames(t *testing.T) {
	rapid.Check(t, func(t *rapid.T) {
		var dir strings.Builder
		nd := rapid.IntRange(0, 3).Draw(t, "ndirs")
		dirHasPattern := false
		for i := 0; i < nd; i++ {
			seg := genPart(1, 6).Draw(t, "dir")
			if rapid.IntRange(0, 7).Draw(t, "dirWithVersion") == 0 {
				seg += "_v1-2-3" // unpacked resources are directories with a version marker
			}
			if rapid.IntRange(0, 5).Draw(t, "dirWithDot") == 0 {
				seg += ".d"
			}
			dirHasPattern = dirHasPattern || versionPattern.MatchString(seg)
			dir.WriteString(seg + "/")
		}
		base := genPart(0, 8).Draw(t, "base")
		next := rapid.IntRange(0, 2).Draw(t, "nexts")
		ext := ""
		for i := 0; i < next; i++ {
			ext += "." + genPart(1, 4).Draw(t, "ext")
		}
		if base == "" && ext == "" {
			base = "f"
		}
		if versionPattern.MatchString(base) || versionPattern.MatchString(ext) || versionPattern.MatchString(base+ext) {
			// identifiers do not themselves contain a version marker: rebuild without underscores
			base = strings.ReplaceAll(base, "_", "u")
			ext = strings.ReplaceAll(ext, "_", "u")
			stats.Class("filename_marker_in_identifier_rewritten")
		}
		version := rapid.OneOf(
			rapid.Just("0.0.0"),
			rapid.Custom(func(t *rapid.T) string {
				v := strings.Join([]string{
					rapid.StringMatching(`[0-9]{1,3}`).Draw(t, "maj"),
					rapid.StringMatching(`[0-9]{1,3}`).Draw(t, "min"),
					rapid.StringMatching(`[0-9]{1,3}`).Draw(t, "pat"),
				}, ".")
				if rapid.Bool().Draw(t, "tagged") {
					v += "-" + rapid.StringMatching(`[a-z]{1,8}`).Draw(t, "tag")
				}
				return v
			}),
		).Draw(t, "version")
		identifier := dir.String() + base + ext
		name := dir.String() + base + "_v" + strings.ReplaceAll(version, ".", "-") + ext
		checkFileName(t, identifier, version, name)
		cls := []string{"filename_exts_" + string(rune('0'+next))}
		if strings.Contains(version, "-") {
			cls = append(cls, "filename_prerelease_version")
		}
		if dirHasPattern {
			cls = append(cls, "filename_version_marker_in_directory")
		}
		if base == "" {
			cls = append(cls, "filename_empty_base")
		}
		stats.Case("fn:"+identifier+"@"+version, next > 0 || nd > 0, cls...)
		if stats.WantSample("filename") {
			stats.Sample("filename", map[string]string{"identifier": identifier, "version": version, "file": name})
		}
	})
}
