package modsim

import "fmt"

// CheckC01 judges an event log against property C01.
//
// (a) prep begins at most once per module (exactly once when Start returned
//
//	nil), after the successful prep end of each dependency and before any start begins;
//
// (b) start-begin(m) is later than a successful start-end(d) of every
//
//	dependency d, with d not stopped in between;
//
// (c) stop-begin(d) is later than stop-end(m) for every started dependent m;
// (d) after a nil return of Start / ManageModules the online set equals the wanted set;
// (e) after Shutdown returned (and in the final snapshot, taken after every
//
//	in-flight lifecycle routine ended): stop invocations(m) == successful
//	starts(m) for every module and no module is online.
//
// (f) in a scenario without any failing routine (acyclic graph by construction) Start, ManageModules and
//
//	Shutdown return nil - otherwise (d) and (e) could be dodged by always reporting an error.
//
// Apart from (f) return values are only used as the trigger of (d).
func CheckC01(sc *Scenario, res *Result) *Violation {
	if !res.Completed {
		return violf("C01-run", "child did not complete: %s", res.Note)
	}
	evs := res.Events
	type mstate struct {
		prepBegins   int
		prepEndOK    bool
		prepEndSeq   int64
		startedOK    bool // currently "started and not completely stopped"
		stopping     bool // stop routine has begun and not ended
		okStarts     int
		stopBegins   int
		lastStartOK  int64
		stoppedSince bool
	}
	ms := map[string]*mstate{}
	for _, m := range sc.Modules {
		ms[m.Name] = &mstate{}
	}
	dependents := map[string][]string{}
	for _, m := range sc.Modules {
		for _, d := range m.Deps {
			dependents[d] = append(dependents[d], m.Name)
		}
	}
	firstStartBegin := int64(-1)
	enabled := map[string]bool{}
	for _, n := range sc.Enabled {
		enabled[n] = true
	}
	shutdownReturned := false
	faulty := sc.HasFault()
	// afterFailedPrep: Start returned an error and not every module was prepped. Management passes after that are
	// outside what the module system is used for (run.Run exits); the unchanged code returns nil from such a pass
	// while a wanted module stays unprepared, and a prep that was launched before Start gave up may begin and end
	// after a pass has begun to start modules. So (d) and the "prep ends before any start" half of (a) are not judged from
	// then on; everything else is - above all (e).
	afterFailedPrep := false
	// several goroutines calling Shutdown: one of them does the work, the others are told "already initiated"
	extraCallers, shutdownCalls, shutdownNil := 0, 0, 0
	for _, st := range sc.Steps {
		if st.Op == "shutdown" {
			extraCallers += st.US
		}
	}

	for _, e := range evs {
		st := ms[e.Mod]
		switch e.Kind {
		case "prep-begin":
			st.prepBegins++
			if st.prepBegins > 1 {
				return violf("C01a-prep-once", "prep of %s began %d times", e.Mod, st.prepBegins)
			}
			if firstStartBegin >= 0 && !afterFailedPrep {
				return violf("C01a-prep-before-start", "prep of %s began (seq %d) after a start routine had begun (seq %d)", e.Mod, e.Seq, firstStartBegin)
			}
			for _, d := range sc.Mod(e.Mod).Deps {
				if !ms[d].prepEndOK {
					return violf("C01a-prep-after-deps", "prep of %s began (seq %d) before the prep of its dependency %s had finished successfully", e.Mod, e.Seq, d)
				}
			}
		case "prep-end":
			if e.Info == "ok" {
				st.prepEndOK = true
				st.prepEndSeq = e.Seq
			} else {
				// Start is going to return an error; a pass that another goroutine asked for meanwhile can get going before
				// that return is recorded here
				afterFailedPrep = true
			}
			if firstStartBegin >= 0 && !afterFailedPrep {
				return violf("C01a-prep-before-start", "prep of %s ended (seq %d) after a start routine had begun (seq %d)", e.Mod, e.Seq, firstStartBegin)
			}
		case "start-begin":
			if firstStartBegin < 0 {
				firstStartBegin = e.Seq
			}
			if !st.prepEndOK {
				return violf("C01a-prep-before-start", "start of %s began (seq %d) although its prep never finished successfully", e.Mod, e.Seq)
			}
			for _, d := range sc.Mod(e.Mod).Deps {
				if !ms[d].startedOK || ms[d].stopping {
					return violf("C01b-start-after-deps", "start of %s began (seq %d) while its dependency %s had not finished starting successfully (or was stopped again)", e.Mod, e.Seq, d)
				}
			}
		case "start-end":
			if e.Info == "ok" {
				st.startedOK = true
				st.okStarts++
				st.lastStartOK = e.Seq
			}
		case "stop-begin":
			st.stopBegins++
			st.stopping = true
			for _, m := range dependents[e.Mod] {
				if ms[m].startedOK {
					return violf("C01c-stop-before-deps", "stop of %s began (seq %d) while its started dependent %s had not completely stopped", e.Mod, e.Seq, m)
				}
			}
			if st.stopBegins > st.okStarts {
				return violf("C01e-stop-count", "stop routine of %s invoked %d times but its start routine succeeded only %d times", e.Mod, st.stopBegins, st.okStarts)
			}
		case "stop-end":
			st.startedOK = false
			st.stopping = false
		case "toggle":
			var op, list string
			_, _ = fmt.Sscanf(e.Info, "%s %s", &op, &list)
			for _, n := range splitComma(list) {
				enabled[n] = op == "enable"
			}
		case "api":
			if e.Info == "shutdown" || e.Info == "shutdown-extra" {
				shutdownCalls++
				if e.ErrNil {
					shutdownNil++
				}
			}
			// (not for overlapping passes: a pass during which another goroutine changes what is wanted can find nothing
			// ready and report a "dependency loop"; the statement speaks of passes that return without error)
			if !faulty && !e.ErrNil && (e.Info == "start" || e.Info == "manage" || (e.Info == "shutdown" && extraCallers == 0)) {
				// (f) with an acyclic graph and no failing routine there is nothing to report: an error here means
				// the wanted modules were not brought online / stopped (e.g. a bogus "dependency loop").
				return violf("C01f-spurious-error", "%s returned %q although no lifecycle routine fails and the graph is acyclic; status=%v", e.Info, e.Err, e.Status)
			}
			if e.Info == "start" && !e.ErrNil {
				for _, m := range sc.Modules {
					if !ms[m.Name].prepEndOK {
						afterFailedPrep = true
					}
				}
			}
			switch e.Info {
			case "start", "manage", "manage-settled":
				// ("manage-settled": several goroutines changed what is wanted and asked for a pass at the same time; all
				// calls have returned, all of them nil)
				if e.ErrNil && !shutdownReturned && !afterFailedPrep {
					wanted := map[string]bool{}
					if sc.Mgmt {
						wanted = sc.TransitiveDeps(sortedKeys(enabled))
					} else {
						for _, m := range sc.Modules {
							wanted[m.Name] = true
						}
					}
					for _, m := range sc.Modules {
						online := e.Status[m.Name] == StatusOnline
						if wanted[m.Name] && !online {
							return violf("C01d-wanted-online", "%s returned nil but wanted module %s is not online (status %d); wanted=%v status=%v", e.Info, m.Name, e.Status[m.Name], sortedKeys(wanted), e.Status)
						}
						if !wanted[m.Name] && online {
							return violf("C01d-unwanted-online", "%s returned nil but module %s is online although not wanted; wanted=%v status=%v", e.Info, m.Name, sortedKeys(wanted), e.Status)
						}
					}
					if e.Info == "start" {
						for _, m := range sc.Modules {
							if ms[m.Name].prepBegins != 1 {
								return violf("C01a-prep-once", "Start returned nil but prep of %s ran %d times", m.Name, ms[m.Name].prepBegins)
							}
						}
					}
				}
			case "shutdown", "shutdown-extra", "final":
				// (every caller of Shutdown: a second one that overlaps the first returns no earlier than it)
				if e.Info != "final" {
					shutdownReturned = true
				}
				if !shutdownReturned {
					continue
				}
				for _, m := range sc.Modules {
					if e.Status[m.Name] == StatusOnline {
						return violf("C01e-online-after-shutdown", "module %s is online at %q after Shutdown returned; status=%v", m.Name, e.Info, e.Status)
					}
				}
				for _, m := range sc.Modules {
					s := ms[m.Name]
					if s.stopBegins != s.okStarts {
						return violf("C01e-stop-count", "after Shutdown (%s snapshot): start routine of %s succeeded %d times but its stop routine was invoked %d times; status=%v", e.Info, m.Name, s.okStarts, s.stopBegins, e.Status)
					}
				}
			}
		}
	}
	if !faulty && extraCallers > 0 && shutdownCalls > 0 && shutdownNil == 0 {
		return violf("C01f-spurious-error", "none of the %d concurrent Shutdown calls returned nil although no lifecycle routine fails and the graph is acyclic", shutdownCalls)
	}
	return nil
}

func splitComma(s string) []string {
	var out []string
	cur := ""
	for _, r := range s {
		if r == ',' {
			if cur != "" {
				out = append(out, cur)
			}
			cur = ""
			continue
		}
		cur += string(r)
	}
	if cur != "" {
		out = append(out, cur)
	}
	return out
}
