//go:build verif

package modsim

import (
	"context"
	"encoding/json"
	"fmt"
	"os"
	"runtime"
	"strings"
	"sync"
	"sync/atomic"
	"time"

	"github.com/safing/portbase/log"
	"github.com/safing/portbase/modules"
)

type child struct {
	sc    *Scenario
	start time.Time
	seq   int64
	mu    sync.Mutex
	evs   []Event

	mods map[string]*modules.Module

	began    map[int]chan struct{}
	beganN   map[int]*int32
	ended    map[int]*int32
	workByID map[int]*Work
	workMod  map[int]string
	tasks    map[int]*modules.Task

	inFlight int32    // lifecycle callbacks currently running
	started  sync.Map // module name -> true once its start routine succeeded

	launchedInCb sync.Map // work id -> true when a lifecycle routine launched the item itself
	storming     int32    // a sigstorm step is in progress
	straddling   int32    // bodies of "straddle" microtasks still running

	arrivals sync.Map // point|ctx -> *int32
	startsOf sync.Map // module -> *int32: successful start routine runs
	launchAt sync.Map // module -> int32: value of the start counter when its work was last launched
}

// startCount counts the successful runs of a module's start routine.
func (c *child) startCount(mod string) *int32 {
	v, _ := c.startsOf.LoadOrStore(mod, new(int32))
	return v.(*int32)
}

func (c *child) rec(e Event) {
	c.mu.Lock()
	c.seq++
	e.Seq = c.seq
	e.T = int64(time.Since(c.start))
	c.evs = append(c.evs, e)
	c.mu.Unlock()
}

func hold(us int) {
	switch {
	case us <= 0:
	case us == 1:
		runtime.Gosched()
	default:
		time.Sleep(time.Duration(us) * time.Microsecond)
	}
}

func (c *child) lifecycle(mod, phase string, cb Callback) func() error {
	var calls int32
	return func() (err error) {
		call := int(atomic.AddInt32(&calls, 1))
		atomic.AddInt32(&c.inFlight, 1)
		info := ""
		if phase == "stop" {
			// C05: is the module context already cancelled when the stop routine is invoked?
			select {
			case <-c.mods[mod].Ctx.Done():
				info = "ctxdone"
			default:
			}
		}
		c.rec(Event{Kind: phase + "-begin", Mod: mod, Info: info, CtxDone: info == "ctxdone"})
		outcome := "ok"
		defer func() {
			// record the end before a panic propagates
			c.rec(Event{Kind: phase + "-end", Mod: mod, Info: outcome})
			atomic.AddInt32(&c.inFlight, -1)
		}()
		for _, id := range cb.Launch {
			if w := c.workByID[id]; w != nil {
				if _, done := c.launchedInCb.LoadOrStore(id, true); !done {
					c.launch(mod, w)
				}
			}
		}
		hold(cb.DurUS)
		fault := cb.Fault
		if cb.FaultTimes > 0 && call > cb.FaultTimes {
			fault = ""
		}
		switch fault {
		case "error":
			outcome = "error"
			switch cb.ErrKind {
			case "cleanexit":
				return modules.ErrCleanExit
			case "cleanexit-wrapped":
				return fmt.Errorf("%s of %s asks for the exit: %w", phase, mod, modules.ErrCleanExit)
			case "ctxcanceled":
				return context.Canceled
			}
			return fmt.Errorf("%s of %s failed on purpose", phase, mod)
		case "panic":
			outcome = "panic"
			PanicNow(cb.Panic)
		}
		if phase == "start" {
			c.started.Store(mod, true)
			atomic.AddInt32(c.startCount(mod), 1)
		}
		return nil
	}
}

func (c *child) snapshot(op string, err error, dur time.Duration) {
	e := Event{Kind: "api", Info: op, ErrNil: err == nil, DurNS: int64(dur), Status: map[string]uint8{}, Counts: map[string][4]int{}}
	if err != nil {
		e.Err = err.Error()
		if ok, me := modules.IsPanic(err); ok {
			e.Report = renderReport(me)
		}
	}
	for n, m := range c.mods {
		e.Status[n] = m.Status()
	}
	if st := modules.GetStatus(); st != nil {
		for n, ms := range st.Modules {
			ctrl := 0
			if ms.CtrlFuncRunning {
				ctrl = 1
			}
			e.Counts[n] = [4]int{ms.Workers, ms.Tasks, ms.MicroTasks, ctrl}
		}
	}
	c.rec(e)
}

func renderReport(me *modules.ModuleError) *Report {
	if me == nil {
		return nil
	}
	r := &Report{
		Module:     me.ModuleName,
		TaskName:   me.TaskName,
		TaskType:   me.TaskType,
		Severity:   me.Severity,
		PanicValue: fmt.Sprintf("%v", me.PanicValue),
		PanicType:  fmt.Sprintf("%T", me.PanicValue),
		HasStack:   len(me.StackTrace) > 0,
		StackNames: strings.Contains(me.StackTrace, "PanicNow"),
		Message:    me.Message,
	}
	ok, _ := modules.IsPanic(me)
	r.IsPanic = ok && me.Severity == "panic"
	return r
}

func (c *child) taskOf(id int) *modules.Task {
	c.mu.Lock()
	defer c.mu.Unlock()
	return c.tasks[id]
}

// launchedByPrep reports whether the prep routine of the module starts the work item.
func (c *child) launchedByPrep(mod string, id int) bool {
	for i := range c.sc.Modules {
		if m := &c.sc.Modules[i]; m.Name == mod {
			for _, x := range m.Prep.Launch {
				if x == id {
					return true
				}
			}
		}
	}
	return false
}

// workFn builds the function body of a work item.
func (c *child) workFn(mod string, w *Work) func(ctx context.Context) error {
	return func(ctx context.Context) error {
		n := atomic.AddInt32(c.beganN[w.ID], 1)
		c.rec(Event{Kind: "work-begin", Mod: mod, ID: w.ID, Info: fmt.Sprintf("%s run=%d", w.Kind, n), CtxDone: ctx.Err() != nil})
		if int(n) == w.Requeue+1 {
			close(c.began[w.ID])
		}
		defer func() {
			c.rec(Event{Kind: "work-end", Mod: mod, ID: w.ID, Info: w.Kind})
			atomic.AddInt32(c.ended[w.ID], 1)
		}()
		if int(n) <= w.Requeue {
			// an earlier, short run of a task that is queued again
			hold(300)
			if t := c.taskOf(w.ID); t != nil {
				t.Queue()
			}
			return nil
		}
		if w.Kind == "service" && n == 1 && c.launchedByPrep(mod, w.ID) {
			// a service worker started by the prep routine: its first run is through only when the module is online (the
			// start of a module cancels the context its earlier workers were given; what a worker that fails before
			// its module has started is owed is not a matter of C06)
			for d := time.Now().Add(20 * time.Second); !c.mods[mod].Online() && time.Now().Before(d); {
				time.Sleep(100 * time.Microsecond)
			}
		}
		if w.QueueInside && int(n)-w.Requeue == 1 {
			if t := c.taskOf(w.ID); t != nil {
				t.Queue()
			}
		}
		if w.Mode == "waitctx" {
			<-ctx.Done()
			hold(w.DelayUS)
		} else {
			hold(w.HoldUS)
		}
		if w.Panic != "" && int(n)-w.Requeue <= w.PanickingRuns() {
			PanicNow(w.Panic)
		}
		if w.Fail && n == 1 {
			return fmt.Errorf("work item %d fails on purpose", w.ID)
		}
		if w.Kind == "service" {
			switch w.Returns {
			case "restartnow":
				if n <= 3 {
					return fmt.Errorf("work item %d asks for a restart: %w", w.ID, modules.ErrRestartNow)
				}
			case "ctxcanceled":
				return context.Canceled
			case "error":
				return fmt.Errorf("work item %d fails in every run", w.ID)
			}
		}
		return nil
	}
}

func (c *child) recReturn(mod string, w *Work, err error) {
	e := Event{Kind: "work-return", Mod: mod, ID: w.ID, Info: w.Kind, ErrNil: err == nil}
	if err != nil {
		e.Err = err.Error()
		if ok, me := modules.IsPanic(err); ok {
			e.Report = renderReport(me)
		}
	}
	c.rec(e)
}

func (c *child) launch(mod string, w *Work) {
	m := c.mods[mod]
	name := fmt.Sprintf("w%d", w.ID)
	fn := c.workFn(mod, w)
	const mtDelay = 50 * time.Millisecond
	switch w.Kind {
	case "runworker":
		go func() { c.recReturn(mod, w, m.RunWorker(name, fn)) }()
	case "startworker":
		m.StartWorker(name, fn)
	case "service":
		backoff := time.Millisecond
		if w.BackoffMS > 0 {
			backoff = time.Duration(w.BackoffMS) * time.Millisecond
		}
		m.StartServiceWorker(name, backoff, fn)
	case "task":
		t := m.NewTask(name, func(ctx context.Context, _ *modules.Task) error { return fn(ctx) })
		c.mu.Lock()
		c.tasks[w.ID] = t
		c.mu.Unlock()
		if w.MaxDelayMS > 0 {
			t.MaxDelay(time.Duration(w.MaxDelayMS) * time.Millisecond)
		}
		t.Queue()
	case "schedtask":
		t := m.NewTask(name, func(ctx context.Context, _ *modules.Task) error { return fn(ctx) })
		c.mu.Lock()
		c.tasks[w.ID] = t
		c.mu.Unlock()
		t.Schedule(time.Now().Add(2 * time.Millisecond))
	case "run_mt_high":
		go func() { c.recReturn(mod, w, m.RunHighPriorityMicroTask(name, fn)) }()
	case "run_mt_med":
		go func() { c.recReturn(mod, w, m.RunMicroTask(name, mtDelay, fn)) }()
	case "run_mt_low":
		go func() { c.recReturn(mod, w, m.RunLowPriorityMicroTask(name, mtDelay, fn)) }()
	case "start_mt_high":
		m.StartHighPriorityMicroTask(name, fn)
	case "start_mt_med":
		m.StartMicroTask(name, mtDelay, fn)
	case "start_mt_low":
		m.StartLowPriorityMicroTask(name, mtDelay, fn)
	case "sig_mt_high", "sig_mt_med", "sig_mt_low":
		go func() {
			var done func()
			switch w.Kind {
			case "sig_mt_high":
				done = m.SignalHighPriorityMicroTask()
			case "sig_mt_med":
				done = m.SignalMicroTask(mtDelay)
			default:
				done = m.SignalLowPriorityMicroTask(mtDelay)
			}
			// the signalled variants hand out no context: the module's own context is the one to watch
			ctx := m.Ctx
			_ = fn(ctx)
			done()
			if w.ID%2 == 0 {
				done() // calling done twice must have no further effect
			}
		}()
	case "hook":
		// launched by triggering the source event, see launchAll
	}
}

func (c *child) waitBegan(ids []int, bound time.Duration) bool {
	deadline := time.After(bound)
	for _, id := range ids {
		select {
		case <-c.began[id]:
		case <-deadline:
			return false
		}
	}
	return true
}

func (c *child) hook(point, ctx string) {
	if atomic.LoadInt32(&c.storming) != 0 {
		return // perturbation delays would turn a storm of thousands of signalled microtasks into seconds
	}
	key := point + "|" + ctx
	v, _ := c.arrivals.LoadOrStore(key, new(int32))
	n := atomic.AddInt32(v.(*int32), 1)
	va, _ := c.arrivals.LoadOrStore(point+"|", new(int32))
	na := n
	if ctx != "" {
		na = atomic.AddInt32(va.(*int32), 1)
	}
	for _, d := range c.sc.Delays {
		if d.Point != point {
			continue
		}
		if d.Ctx != "" && d.Ctx != ctx {
			continue
		}
		cnt := n
		if d.Ctx == "" {
			cnt = na
		}
		if d.Nth == 0 || int32(d.Nth) == cnt {
			c.rec(Event{Kind: "point", Info: point, Mod: ctx})
			hold(d.DelayUS)
			return
		}
	}
}

// RunChild executes the scenario and returns the result. It must be called at most once per process.
func RunChild(sc *Scenario) *Result {
	c := &child{
		sc: sc, start: time.Now(), mods: map[string]*modules.Module{},
		began: map[int]chan struct{}{}, beganN: map[int]*int32{}, ended: map[int]*int32{},
		workByID: map[int]*Work{}, workMod: map[int]string{}, tasks: map[int]*modules.Task{},
	}
	res := &Result{}

	log.SetAdapter(log.AdapterFunc(func(log.Message, uint64) {}))
	log.SetLogLevel(log.WarningLevel)
	modules.SetStdErrReporting(false)
	modules.VerifSetTimeouts(time.Duration(sc.StartTimeoutMS)*time.Millisecond, time.Duration(sc.StopTimeoutMS)*time.Millisecond)
	if sc.MicroTaskLimit > 0 {
		modules.SetMaxConcurrentMicroTasks(sc.MicroTaskLimit)
	}
	modules.VerifHook = c.hook

	reports := make(chan *modules.ModuleError, 256)
	if sc.UnbufferedReports {
		reports = make(chan *modules.ModuleError)
	}
	if !sc.NoReports {
		modules.SetErrorReportingChannel(reports)
	}
	var repWg sync.WaitGroup
	drainLate := func() {}
	if sc.ReportsCap > 0 && !sc.UnbufferedReports {
		reports = make(chan *modules.ModuleError, sc.ReportsCap)
		if !sc.NoReports {
			modules.SetErrorReportingChannel(reports)
		}
		drainLate = func() {
			for {
				select {
				case me := <-reports:
					c.rec(Event{Kind: "report", Mod: me.ModuleName, Info: me.TaskName, Report: renderReport(me)})
				default:
					return
				}
			}
		}
	} else {
		repWg.Add(1)
		go func() {
			defer repWg.Done()
			for me := range reports {
				c.rec(Event{Kind: "report", Mod: me.ModuleName, Info: me.TaskName, Report: renderReport(me)})
			}
		}()
	}

	// registration
	for i := range sc.Modules {
		m := &sc.Modules[i]
		mod := modules.Register(m.Name, c.lifecycle(m.Name, "prep", m.Prep), c.lifecycle(m.Name, "start", m.Start), c.lifecycle(m.Name, "stop", m.Stop), m.Deps...)
		if mod == nil {
			res.Note = "Register returned nil for " + m.Name
			return res
		}
		c.mods[m.Name] = mod
		mod.RegisterEvent("ev", true)
		mod.RegisterEvent("probe", true)
	}
	for i := range sc.Modules {
		m := &sc.Modules[i]
		mod := c.mods[m.Name]
		name := m.Name
		_ = mod.RegisterEventHook(name, "probe", "probe-hook", func(ctx context.Context, _ interface{}) error {
			c.rec(Event{Kind: "probe-hook-ran", Mod: name, CtxDone: ctx.Err() != nil})
			return nil
		})
		for j := range m.Work {
			w := &m.Work[j]
			c.began[w.ID] = make(chan struct{})
			c.beganN[w.ID] = new(int32)
			c.ended[w.ID] = new(int32)
			c.workByID[w.ID] = w
			c.workMod[w.ID] = m.Name
			if w.Kind == "hook" {
				src := w.On
				if src == "" {
					src = m.Name
				}
				fn := c.workFn(m.Name, w)
				if err := mod.RegisterEventHook(src, "ev", fmt.Sprintf("w%d", w.ID), func(ctx context.Context, _ interface{}) error { return fn(ctx) }); err != nil {
					res.Note = "RegisterEventHook: " + err.Error()
					return res
				}
			}
		}
	}
	if sc.Mgmt {
		modules.EnableModuleManagement(func(*modules.Module) {})
		for _, n := range sc.Enabled {
			c.mods[n].Enable()
		}
	}

	shutdownDone := false
	startFailed := false
	for _, st := range sc.Steps {
		if startFailed && !sc.ManageAfterFailedStart && st.Op != "shutdown" && st.Op != "poststop" && st.Op != "sleep" {
			// after a failed Start the only documented continuation is Shutdown
			c.rec(Event{Kind: "skipped", Info: st.Op})
			continue
		}
		switch st.Op {
		case "start":
			// st.US management passes are requested by other goroutines while Start runs (a config hook, the notify
			// function): they wait for Start or run before it, never in the middle of its phases
			var conc sync.WaitGroup
			concErr := make([]error, st.US)
			for k := 0; k < st.US; k++ {
				conc.Add(1)
				go func(k int) {
					defer conc.Done()
					hold(1 + k*400)
					concErr[k] = modules.ManageModules()
				}(k)
			}
			t0 := time.Now()
			err := modules.Start()
			startFailed = err != nil
			c.snapshot("start", err, time.Since(t0))
			drainLate()
			conc.Wait()
			for k := 0; k < st.US; k++ {
				c.snapshot("manage-concurrent", concErr[k], 0)
			}
		case "enable":
			for _, n := range st.Mods {
				c.mods[n].Enable()
			}
			c.rec(Event{Kind: "toggle", Info: "enable " + strings.Join(st.Mods, ",")})
		case "disable":
			for _, n := range st.Mods {
				c.mods[n].Disable()
			}
			c.rec(Event{Kind: "toggle", Info: "disable " + strings.Join(st.Mods, ",")})
		case "manage":
			if len(st.Conc) > 0 {
				// overlapping requests: each caller changes what is wanted and then asks for a pass. Whichever pass runs
				// when, once every call has returned every change has been seen by a pass that began after it.
				var wg sync.WaitGroup
				errs := make([]error, len(st.Conc)+1)
				for k, cs := range st.Conc {
					wg.Add(1)
					go func(k int, cs Step) {
						defer wg.Done()
						hold(1 + k*300)
						for _, n := range cs.Mods {
							if cs.Op == "enable" {
								c.mods[n].Enable()
							} else {
								c.mods[n].Disable()
							}
						}
						c.rec(Event{Kind: "toggle", Info: cs.Op + " " + strings.Join(cs.Mods, ",")})
						errs[k+1] = modules.ManageModules()
					}(k, cs)
				}
				errs[0] = modules.ManageModules()
				wg.Wait()
				var firstErr error
				for _, e := range errs {
					c.snapshot("manage-concurrent", e, 0)
					if e != nil && firstErr == nil {
						firstErr = e
					}
				}
				c.snapshot("manage-settled", firstErr, 0)
				drainLate()
				break
			}
			t0 := time.Now()
			err := modules.ManageModules()
			c.snapshot("manage", err, time.Since(t0))
			drainLate()
		case "launch", "relaunch":
			// relaunch: only modules that have been started again since their work was last launched (a module that
			// stayed online as a dependency still runs its first set of items)
			var ids []int
			type lateItem struct {
				mod string
				w   *Work
			}
			var late []lateItem
			sources := map[string]bool{}
			for _, n := range st.Mods {
				m := sc.Mod(n)
				if m == nil || !c.mods[n].Online() {
					continue
				}
				starts := atomic.LoadInt32(c.startCount(n))
				if st.Op == "relaunch" {
					if at, ok := c.launchAt.Load(n); !ok || at.(int32) >= starts {
						continue
					}
					c.rec(Event{Kind: "relaunch", Mod: n})
				}
				c.launchAt.Store(n, starts)
				for j := range m.Work {
					w := &m.Work[j]
					if _, done := c.launchedInCb.Load(w.ID); done {
						continue
					}
					if w.Kind == "hook" {
						src := w.On
						if src == "" {
							src = n
						}
						if !c.mods[src].Online() {
							continue
						}
						sources[src] = true
					} else if (w.Kind == "task" || w.Kind == "schedtask") && w.Mode == "waitctx" {
						// a task that waits for its context blocks the serial task queue: launch it after all others began
						late = append(late, lateItem{n, w})
					} else {
						c.launch(n, w)
					}
					if w.NoWait {
						continue
					}
					ids = append(ids, w.ID)
				}
			}
			for src := range sources {
				c.mods[src].TriggerEvent("ev", nil)
			}
			if len(late) > 0 {
				var early []int
				for _, id := range ids {
					isLate := false
					for _, l := range late {
						if l.w.ID == id {
							isLate = true
						}
					}
					if !isLate {
						early = append(early, id)
					}
				}
				c.waitBegan(early, 20*time.Second)
				for _, l := range late {
					c.launch(l.mod, l.w)
				}
			}
			// a task body that returns before the queue handler's watcher goroutine runs stalls the task queue for the
			// 1-minute execution wait (known t.ctx race, allowed by the wording of C07): give tasks time for two such stalls
			bound := 20 * time.Second
			for _, id := range ids {
				if k := c.workByID[id].Kind; k == "task" || k == "schedtask" {
					bound = 140 * time.Second
				}
			}
			if !c.waitBegan(ids, bound) {
				c.rec(Event{Kind: "launch-incomplete"})
			} else {
				c.rec(Event{Kind: "launched", Info: fmt.Sprintf("%d items", len(ids))})
			}
		case "waitfinish":
			// wait until every finish-mode item that began has ended; snapshot the counters at quiescence
			deadline := time.Now().Add(20 * time.Second)
			for {
				busy := false
				for id, w := range c.workByID {
					if w.Mode == "finish" && atomic.LoadInt32(c.beganN[id]) > atomic.LoadInt32(c.ended[id]) {
						busy = true
					}
				}
				if !busy || time.Now().After(deadline) {
					break
				}
				time.Sleep(200 * time.Microsecond)
			}
			// counters are decremented just after the function returned
			c.settleCounters(st.Mods)
			c.snapshot("counts", nil, 0)
		case "waitrestart":
			// wait until every panicking service worker has been run again
			deadline := time.Now().Add(20 * time.Second)
			for {
				pending := false
				for id, w := range c.workByID {
					if w.Kind == "service" && w.Panic != "" && w.Mode == "finish" && int(atomic.LoadInt32(c.beganN[id])) <= w.PanickingRuns() {
						pending = true
					}
				}
				if !pending || time.Now().After(deadline) {
					break
				}
				time.Sleep(200 * time.Microsecond)
			}
		case "waitrerun":
			// wait until every task that queued itself again from inside its panicking run has begun the run for that
			// submission (nothing else asks for it)
			for id, w := range c.workByID {
				if !w.QueueInside {
					continue
				}
				deadline := time.Now().Add(20 * time.Second)
				for int(atomic.LoadInt32(c.beganN[id])) < w.Requeue+2 && time.Now().Before(deadline) {
					time.Sleep(200 * time.Microsecond)
				}
				c.rec(Event{Kind: "rerun-waited", ID: id, Info: fmt.Sprintf("runs=%d", atomic.LoadInt32(c.beganN[id]))})
			}
		case "waitcounts":
			// quiescence: poll until the module counters equal the number of items that are really still running
			deadline := time.Now().Add(10 * time.Second)
			var exp map[string][4]int
			for {
				exp = c.expectedCounts()
				ok := true
				if st := modules.GetStatus(); st != nil {
					for n := range c.mods {
						ms := st.Modules[n]
						e := exp[n]
						if ms == nil || ms.Workers != e[0] || ms.Tasks != e[1] || ms.MicroTasks != e[2] {
							ok = false
						}
					}
				}
				if ok || time.Now().After(deadline) {
					break
				}
				time.Sleep(300 * time.Microsecond)
			}
			b, _ := json.Marshal(exp)
			c.snapshot("counts", nil, 0)
			c.rec(Event{Kind: "expected-counts", Info: string(b), Counts: exp})
		case "requeue":
			for _, n := range st.Mods {
				m := sc.Mod(n)
				if m == nil {
					continue
				}
				for j := range m.Work {
					w := &m.Work[j]
					if t := c.tasks[w.ID]; t != nil {
						before := atomic.LoadInt32(c.beganN[w.ID])
						t.Queue()
						deadline := time.Now().Add(140 * time.Second) // see "launch": two execution-wait limits
						for atomic.LoadInt32(c.beganN[w.ID]) == before && time.Now().Before(deadline) {
							time.Sleep(200 * time.Microsecond)
						}
						c.rec(Event{Kind: "requeued", Mod: n, ID: w.ID, Info: fmt.Sprintf("runs=%d", atomic.LoadInt32(c.beganN[w.ID]))})
					}
				}
			}
		case "poststop":
			for _, n := range st.Mods {
				// only modules that have been online and are stopped now
				if _, ok := c.started.Load(n); ok && c.mods[n].Status() == modules.StatusOffline {
					c.rec(Event{Kind: "poststop-probe", Mod: n})
					c.poststop(n)
				}
			}
			time.Sleep(30 * time.Millisecond) // one-sided grace: a wrongly executed task or hook gets the chance to show up
			c.rec(Event{Kind: "poststop-done"})
		case "sigstorm":
			// many signalled microtasks whose done function is called by several goroutines at the same moment
			for _, n := range st.Mods {
				m := c.mods[n]
				if !m.Online() {
					continue
				}
				atomic.StoreInt32(&c.storming, 1)
				for a := 0; a < st.US; a++ {
					done := m.SignalHighPriorityMicroTask()
					start := make(chan struct{})
					var wg sync.WaitGroup
					for k := 0; k < 4; k++ {
						wg.Add(1)
						go func() { defer wg.Done(); <-start; done() }()
					}
					close(start)
					wg.Wait()
				}
				atomic.StoreInt32(&c.storming, 0)
				c.rec(Event{Kind: "sigstorm-done", Mod: n, Info: fmt.Sprintf("%d attempts", st.US)})
			}
		case "sleep":
			hold(st.US)
		case "trigger":
			// the event of the listed modules is triggered (again): every hook on it runs once more
			for _, n := range st.Mods {
				if c.mods[n].Online() {
					c.mods[n].TriggerEvent("ev", nil)
				}
			}
			c.rec(Event{Kind: "triggered", Info: strings.Join(st.Mods, ",")})
		case "straddle":
			// microtasks started on modules that are not online (never started yet, or stopped) and still running when the
			// module is started (again): they see a cancelled context or none that matters, and they are counted like any other
			for _, n := range st.Mods {
				m := c.mods[n]
				if m.Online() {
					continue
				}
				began := make(chan struct{}, 3)
				body := func(context.Context) error {
					atomic.AddInt32(&c.straddling, 1)
					c.rec(Event{Kind: "straddle-begin", Mod: n})
					began <- struct{}{}
					hold(st.US)
					c.rec(Event{Kind: "straddle-end", Mod: n})
					atomic.AddInt32(&c.straddling, -1)
					return nil
				}
				m.StartMicroTask("straddle-med", 20*time.Millisecond, body)
				m.StartHighPriorityMicroTask("straddle-high", body)
				go func() {
					done := m.SignalLowPriorityMicroTask(20 * time.Millisecond)
					_ = body(nil)
					done()
				}()
				for k := 0; k < 3; k++ {
					select {
					case <-began:
					case <-time.After(20 * time.Second):
						c.rec(Event{Kind: "straddle-incomplete", Mod: n})
					}
				}
			}
		case "waitstraddle":
			deadline := time.Now().Add(20 * time.Second)
			for atomic.LoadInt32(&c.straddling) > 0 && time.Now().Before(deadline) {
				time.Sleep(200 * time.Microsecond)
			}
			// the counters are decremented just after the function returned
			time.Sleep(2 * time.Millisecond)
		case "shutdown":
			// st.US further callers call Shutdown at (about) the same time, e.g. a signal handler and an API request:
			// none of them may return before everything has stopped
			var extra sync.WaitGroup
			for k := 0; k < st.US; k++ {
				extra.Add(1)
				go func(k int) {
					defer extra.Done()
					hold(k * 150)
					t0 := time.Now()
					err := modules.Shutdown()
					c.snapshot("shutdown-extra", err, time.Since(t0))
				}(k)
			}
			t0 := time.Now()
			err := modules.Shutdown()
			c.snapshot("shutdown", err, time.Since(t0))
			drainLate()
			extra.Wait()
			shutdownDone = true
		}
	}
	_ = shutdownDone

	// let lifecycle routines that are still in flight finish (bounded), then take the final snapshot
	deadline := time.Now().Add(5 * time.Second)
	for atomic.LoadInt32(&c.inFlight) > 0 && time.Now().Before(deadline) {
		time.Sleep(time.Millisecond)
	}
	time.Sleep(5 * time.Millisecond)
	// quiescence: portbase itself starts short workers on status changes ("notify of change", failure status updates),
	// which may still be counted for a moment after the last API call returned
	quiet := time.Now().Add(5 * time.Second)
	for time.Now().Before(quiet) {
		busy := false
		if st := modules.GetStatus(); st != nil {
			for _, ms := range st.Modules {
				if ms.Workers != 0 || ms.Tasks != 0 || ms.MicroTasks != 0 {
					busy = true
				}
			}
		}
		if !busy {
			break
		}
		time.Sleep(500 * time.Microsecond)
	}
	c.snapshot("final", nil, 0)
	if me := modules.GetLastReportedError(); me != nil {
		c.rec(Event{Kind: "last-report", Mod: me.ModuleName, Info: me.TaskName, Report: renderReport(me)})
	}
	modules.SetErrorReportingChannel(nil)
	drainLate()
	close(reports)
	repWg.Wait()

	c.mu.Lock()
	res.Events = append([]Event(nil), c.evs...)
	c.mu.Unlock()
	res.Completed = true
	return res
}

// expectedCounts derives, per module, how many workers / tasks / microtasks are really still running.
func (c *child) expectedCounts() map[string][4]int {
	out := map[string][4]int{}
	for n := range c.mods {
		out[n] = [4]int{}
	}
	for id, w := range c.workByID {
		running := int(atomic.LoadInt32(c.beganN[id]) - atomic.LoadInt32(c.ended[id]))
		if running <= 0 {
			continue
		}
		e := out[c.workMod[id]]
		switch w.Kind {
		case "runworker", "startworker", "service", "hook":
			e[0] += running
		case "task", "schedtask":
			e[1] += running
		default:
			e[2] += running
		}
		out[c.workMod[id]] = e
	}
	return out
}

// settleCounters waits (bounded) until the work counters of the named modules stop changing.
func (c *child) settleCounters(mods []string) {
	deadline := time.Now().Add(2 * time.Second)
	for time.Now().Before(deadline) {
		st := modules.GetStatus()
		if st == nil {
			return
		}
		busy := false
		for id, w := range c.workByID {
			if w.Mode == "finish" && atomic.LoadInt32(c.beganN[id]) > atomic.LoadInt32(c.ended[id]) {
				busy = true
			}
		}
		if !busy {
			time.Sleep(3 * time.Millisecond)
			return
		}
		time.Sleep(200 * time.Microsecond)
	}
}

func (c *child) poststop(n string) {
	m := c.mods[n]
	// task created for the stopped module
	t := m.NewTask("post-task", func(ctx context.Context, _ *modules.Task) error {
		c.rec(Event{Kind: "post-task-ran", Mod: n, CtxDone: ctx.Err() != nil})
		return nil
	})
	t.Queue()
	t2 := m.NewTask("post-task-asap", func(ctx context.Context, _ *modules.Task) error {
		c.rec(Event{Kind: "post-task-ran", Mod: n, Info: "asap", CtxDone: ctx.Err() != nil})
		return nil
	})
	t2.StartASAP()
	t3 := m.NewTask("post-task-sched", func(ctx context.Context, _ *modules.Task) error {
		c.rec(Event{Kind: "post-task-ran", Mod: n, Info: "sched", CtxDone: ctx.Err() != nil})
		return nil
	})
	t3.Schedule(time.Now().Add(time.Millisecond))
	// event triggered on the stopped module
	m.TriggerEvent("probe", nil)
	// worker and microtask started on it: must see a cancelled context
	done := make(chan struct{}, 2)
	go func() {
		_ = m.RunWorker("post-worker", func(ctx context.Context) error {
			c.rec(Event{Kind: "post-worker-ran", Mod: n, CtxDone: ctx.Err() != nil})
			return nil
		})
		done <- struct{}{}
	}()
	go func() {
		_ = m.RunMicroTask("post-mt", 20*time.Millisecond, func(ctx context.Context) error {
			c.rec(Event{Kind: "post-mt-ran", Mod: n, CtxDone: ctx.Err() != nil})
			return nil
		})
		done <- struct{}{}
	}()
	for i := 0; i < 2; i++ {
		select {
		case <-done:
		case <-time.After(10 * time.Second):
			c.rec(Event{Kind: "post-probe-stuck", Mod: n})
		}
	}
}

// ChildMain is the body of the scenario runner binary.
func ChildMain() {
	if len(os.Args) < 3 {
		fmt.Fprintln(os.Stderr, "usage: modscenario <scenario.json> <result.json>")
		os.Exit(2)
	}
	sc, err := Load(os.Args[1])
	if err != nil {
		fmt.Fprintln(os.Stderr, err)
		os.Exit(2)
	}
	resultPath := os.Args[2]
	// keep the flag package away from our arguments (modules.Start parses flags)
	os.Args = os.Args[:1]
	res := RunChild(sc)
	b, _ := json.Marshal(res)
	if err := os.WriteFile(resultPath, b, 0o644); err != nil {
		fmt.Fprintln(os.Stderr, err)
		os.Exit(2)
	}
	os.Exit(0)
}
