package modsim

import (
	"fmt"

	"pgregory.net/rapid"
)

var durChoices = []int{0, 0, 1, 300, 1000, 3000}

// GenGraph draws n modules m0..m(n-1) with an acyclic dependency graph (module j may depend on i<j only).
func GenGraph(t *rapid.T, minN, maxN int) []Module {
	n := rapid.IntRange(minN, maxN).Draw(t, "n")
	shape := rapid.SampledFrom([]string{"random", "random", "random", "chain", "star", "diamond", "sparse"}).Draw(t, "shape")
	mods := make([]Module, n)
	for i := range mods {
		mods[i].Name = fmt.Sprintf("m%d", i)
	}
	dep := func(j, i int) { mods[j].Deps = append(mods[j].Deps, mods[i].Name) }
	switch shape {
	case "chain":
		for j := 1; j < n; j++ {
			dep(j, j-1)
		}
	case "star":
		for j := 1; j < n; j++ {
			dep(j, 0)
		}
	case "diamond":
		// m0 <- m1..m(n-2) <- m(n-1)
		for j := 1; j < n-1; j++ {
			dep(j, 0)
		}
		if n >= 3 {
			for i := 1; i < n-1; i++ {
				dep(n-1, i)
			}
		} else if n == 2 {
			dep(1, 0)
		}
	default:
		p := 35
		if shape == "sparse" {
			p = 12
		}
		for j := 1; j < n; j++ {
			for i := 0; i < j; i++ {
				if rapid.IntRange(0, 99).Draw(t, "edge") < p {
					dep(j, i)
				}
			}
		}
	}
	for i := range mods {
		mods[i].Prep.DurUS = rapid.SampledFrom(durChoices).Draw(t, "prepdur")
		mods[i].Start.DurUS = rapid.SampledFrom(durChoices).Draw(t, "startdur")
		mods[i].Stop.DurUS = rapid.SampledFrom(durChoices).Draw(t, "stopdur")
	}
	return mods
}

// GenFaults assigns lifecycle faults: with probability 1/2 none at all, otherwise each module gets one with probability ~1/3.
func GenFaults(t *rapid.T, mods []Module, phases []string) {
	if !rapid.Bool().Draw(t, "faulty") {
		return
	}
	for i := range mods {
		if rapid.IntRange(0, 2).Draw(t, "hasfault") != 0 {
			continue
		}
		phase := rapid.SampledFrom(phases).Draw(t, "faultphase")
		kind := rapid.SampledFrom([]string{"error", "panic"}).Draw(t, "faultkind")
		cb := &mods[i].Prep
		switch phase {
		case "start":
			cb = &mods[i].Start
		case "stop":
			cb = &mods[i].Stop
		}
		cb.Fault = kind
		if kind == "panic" {
			cb.Panic = rapid.SampledFrom(PanicKinds).Draw(t, "panickind")
		} else {
			cb.ErrKind = rapid.SampledFrom([]string{"", "", "cleanexit", "cleanexit-wrapped", "ctxcanceled"}).Draw(t, "errkind")
		}
	}
}

// Subset draws a subset of the module names.
func Subset(t *rapid.T, mods []Module, label string) []string {
	var out []string
	for _, m := range mods {
		if rapid.Bool().Draw(t, label) {
			out = append(out, m.Name)
		}
	}
	return out
}

// YieldPoints are the guarded yield points of the modules package that matter for lifecycle hand-overs.
var YieldPoints = []string{
	"modules.work.decremented", "modules.stopcheck.complete",
	"modules.stop.ctrlflag", "modules.stop.stopflag", "modules.stop.cancelled", "modules.stop.waiting",
	"modules.ctrlfn.returned", "modules.ctrlfn.returned",
}

// GenDelays draws 0..max perturbation delays at the guarded yield points.
func GenDelays(t *rapid.T, mods []Module, max int) []Delay {
	var out []Delay
	n := rapid.IntRange(0, max).Draw(t, "ndelays")
	for i := 0; i < n; i++ {
		out = append(out, Delay{
			Point:   rapid.SampledFrom(YieldPoints).Draw(t, "point"),
			Ctx:     mods[rapid.IntRange(0, len(mods)-1).Draw(t, "pctx")].Name,
			Nth:     rapid.IntRange(0, 3).Draw(t, "nth"),
			DelayUS: rapid.SampledFrom([]int{200, 2000, 8000}).Draw(t, "pdelay"),
		})
	}
	return out
}
