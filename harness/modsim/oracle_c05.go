package modsim

import "time"

// CheckC05 judges an event log against property C05 (stopping a module waits for all of its managed work).
//
//  1. the module context is already cancelled when the stop routine is invoked;
//  2. every work item of the module that was running when its stop routine began, and the stop routine itself,
//     has returned before (i) any later status snapshot shows the module offline, (ii) the stop routine of any
//     of its dependencies begins, (iii) the API call (ManageModules / Shutdown) that stopped it returns;
//  3. that API call takes less than half the stop timeout (items return within milliseconds of cancellation);
//  4. in the final snapshot all work counters are zero;
//     a further Shutdown call made while the first is at work is held to (iii) as well;
//  5. tasks created for and events triggered on a stopped module are not executed; a worker or microtask
//     started on it sees an already cancelled context.
func CheckC05(sc *Scenario, res *Result) *Violation {
	if !res.Completed {
		return violf("C05-run", "child did not complete: %s", res.Note)
	}
	type run struct {
		id    int
		mod   string
		begin int64
		end   int64 // 0 = not ended yet
	}
	var runs []*run
	open := map[int][]*run{}
	// pending[mod] = work runs (and the stop routine) that must end before the next barrier of that module's stop episode
	type episode struct {
		mod     string
		begin   int64
		pending []*run
		stopEnd bool
	}
	var active []*episode // stop episodes whose API call has not returned yet
	deps := map[string][]string{}
	for _, m := range sc.Modules {
		deps[m.Name] = m.Deps
	}
	checkBarrier := func(ep *episode, what string, seq int64) *Violation {
		if !ep.stopEnd {
			return violf("C05-2-stop-routine", "%s (seq %d) although the stop routine of %s (begun at seq %d) had not returned", what, seq, ep.mod, ep.begin)
		}
		for _, r := range ep.pending {
			if r.end == 0 || r.end > seq {
				return violf("C05-2-work-still-running", "%s (seq %d) although work item #%d of %s, running when the stop began (seq %d), had not returned", what, seq, r.id, ep.mod, ep.begin)
			}
		}
		return nil
	}
	halfStop := time.Duration(sc.StopTimeoutMS) * time.Millisecond / 2
	if sc.SlowItems {
		// no verdict when an item needed more than half the stop timeout after its module's stop began (starvation)
		stopT := map[string]int64{}
		for _, e := range res.Events {
			switch e.Kind {
			case "stop-begin":
				stopT[e.Mod] = e.T
			case "work-end":
				if t0, ok := stopT[e.Mod]; ok && time.Duration(e.T-t0) > halfStop {
					return nil
				}
			}
		}
	}
	for _, e := range res.Events {
		switch e.Kind {
		case "work-begin":
			r := &run{id: e.ID, mod: e.Mod, begin: e.Seq}
			runs = append(runs, r)
			open[e.ID] = append(open[e.ID], r)
		case "work-end":
			if q := open[e.ID]; len(q) > 0 {
				q[0].end = e.Seq
				open[e.ID] = q[1:]
			}
		case "stop-begin":
			if !e.CtxDone {
				return violf("C05-1-ctx-not-cancelled", "stop routine of %s invoked (seq %d) while the module context was not yet cancelled", e.Mod, e.Seq)
			}
			// barrier (ii) for episodes of modules that depend on e.Mod
			for _, ep := range active {
				for _, d := range deps[ep.mod] {
					if d == e.Mod {
						if v := checkBarrier(ep, "stop routine of dependency "+e.Mod+" began", e.Seq); v != nil {
							return v
						}
					}
				}
			}
			ep := &episode{mod: e.Mod, begin: e.Seq}
			for _, r := range runs {
				if r.mod == e.Mod && r.end == 0 {
					ep.pending = append(ep.pending, r)
				}
			}
			active = append(active, ep)
		case "stop-end":
			for _, ep := range active {
				if ep.mod == e.Mod {
					ep.stopEnd = true
				}
			}
		case "api":
			switch e.Info {
			case "shutdown-extra":
				// a further caller of Shutdown while the first call is at work: it may not return early either
				for _, ep := range active {
					if v := checkBarrier(ep, "a concurrent second Shutdown call returned", e.Seq); v != nil {
						return v
					}
				}
			case "manage", "shutdown":
				for _, ep := range active {
					if v := checkBarrier(ep, e.Info+" returned", e.Seq); v != nil {
						return v
					}
					if st, ok := e.Status[ep.mod]; ok && st == StatusOnline {
						// restarted within the same pass: nothing to say
						continue
					}
				}
				if len(active) > 0 && !sc.SlowItems && time.Duration(e.DurNS) > halfStop {
					return violf("C05-3-not-prompt", "%s took %s (stop timeout %d ms) although every work item returns within milliseconds of its cancellation", e.Info, time.Duration(e.DurNS), sc.StopTimeoutMS)
				}
				active = nil
			case "final":
				for mod, c := range e.Counts {
					if c[0] != 0 || c[1] != 0 || c[2] != 0 {
						return violf("C05-4-counters", "final work counters of %s are workers=%d tasks=%d microtasks=%d, want all zero", mod, c[0], c[1], c[2])
					}
				}
			}
		case "post-task-ran":
			return violf("C05-5-task-on-stopped-module", "a task (%s) created for the stopped module %s was executed", e.Info, e.Mod)
		case "probe-hook-ran":
			return violf("C05-5-event-on-stopped-module", "an event triggered on the stopped module %s was delivered to a hook", e.Mod)
		case "post-worker-ran":
			if !e.CtxDone {
				return violf("C05-5-worker-ctx", "a worker started on the stopped module %s received a context that is not cancelled", e.Mod)
			}
		case "post-mt-ran":
			if !e.CtxDone {
				return violf("C05-5-microtask-ctx", "a microtask started on the stopped module %s received a context that is not cancelled", e.Mod)
			}
		case "post-probe-stuck":
			return violf("C05-5-probe-stuck", "a worker/microtask started on the stopped module %s did not return", e.Mod)
		}
	}
	return nil
}

// C05Stats extracts generator classes from a run.
func C05Stats(sc *Scenario, res *Result) (classes []string, runningAtStop int) {
	open := map[int]bool{}
	kind := map[int]string{}
	for _, m := range sc.Modules {
		for _, w := range m.Work {
			kind[w.ID] = w.Kind
		}
	}
	seen := map[string]bool{}
	if sc.SlowItems {
		classes = append(classes, "slow_dependency_chain")
	}
	for _, m := range sc.Modules {
		for _, w := range m.Work {
			if w.Fail {
				classes = append(classes, "service_worker_in_backoff_at_stop")
			}
		}
		if m.Start.FaultTimes > 0 && len(m.Start.Launch) > 0 {
			classes = append(classes, "start_launches_work_then_fails_then_retried")
		}
	}
	add := func(c string) {
		if !seen[c] {
			seen[c] = true
			classes = append(classes, c)
		}
	}
	modOf := map[int]string{}
	for _, e := range res.Events {
		switch e.Kind {
		case "work-begin":
			open[e.ID] = true
			modOf[e.ID] = e.Mod
		case "work-end":
			delete(open, e.ID)
		case "stop-begin":
			for id := range open {
				if modOf[id] == e.Mod {
					runningAtStop++
					add("running_at_stop_" + kind[id])
				}
			}
		case "point":
			add("point_reached_" + e.Info)
		case "launch-incomplete":
			add("launch_incomplete")
		case "sigstorm-done":
			add("sigstorm_done_called_concurrently")
		case "poststop-probe":
			add("poststop_probe")
		case "relaunch":
			add("module_restarted_and_work_relaunched")
		case "straddle-begin":
			add("microtask_running_across_module_start")
		case "api":
			if e.Info == "manage" {
				add("with_manage")
			}
			if e.Info == "shutdown-extra" {
				add("concurrent_shutdown_callers")
			}
		}
	}
	if runningAtStop > 0 {
		add("some_work_running_at_stop")
	} else {
		add("no_work_running_at_stop")
	}
	return
}
