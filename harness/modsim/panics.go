package modsim

import (
	"context"
	"errors"
	"fmt"
	"github.com/safing/portbase/modules"
	"io/fs"
)

// CustomErr is the "custom error type" panic value.
type CustomErr struct{ Code int }

func (c CustomErr) Error() string { return fmt.Sprintf("custom error %d", c.Code) }

// PlainStruct is the "arbitrary struct" panic value.
type PlainStruct struct {
	A int
	B string
}

// SliceStruct is a struct panic value that cannot be compared with ==.
type SliceStruct struct {
	Msg  string
	Path []string
}

var errBoom = errors.New("boom-err")

// PanicNow panics with a value of the given kind. Its name is looked for in stack traces.
//
//go:noinline
func PanicNow(kind string) {
	switch kind {
	case "nil":
		panic(nil) //nolint
	case "error":
		panic(errBoom)
	case "string":
		panic("boom-string")
	case "runtime":
		var a []int
		idx := 5
		_ = a[idx]
	case "nilderef":
		var p *PlainStruct
		_ = p.A
	case "struct":
		panic(PlainStruct{A: 7, B: "x"})
	case "custom":
		panic(CustomErr{Code: 42})
	case "typednil":
		// an error whose own Error method panics when it is called (nil pointer receiver)
		var pe *fs.PathError
		panic(pe)
	case "slice":
		// values that cannot be compared with == (comparing two of them panics at run time)
		panic([]string{"boom", "slice"})
	case "map":
		panic(map[string]int{"boom": 1})
	case "slicestruct":
		panic(SliceStruct{Msg: "boom", Path: []string{"a", "b"}})
	case "moduleerror":
		// an error of the module system's own reportable type (passed up from an inner worker, say): a panic value like
		// any other - the resulting error is about THIS panic
		panic(&modules.ModuleError{Message: "boom-module-error", ModuleName: "elsewhere", TaskName: "inner", Severity: "error"})
	case "ctxcanceled":
		// an error value that the worker code itself treats specially when it is *returned*
		panic(context.Canceled)
	case "ctxwrapped":
		panic(fmt.Errorf("wrapped: %w", context.Canceled))
	default:
		panic("unknown panic kind " + kind)
	}
}
