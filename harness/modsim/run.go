package modsim

import (
	"context"
	"encoding/json"
	"errors"
	"fmt"
	"os"
	"os/exec"
	"path/filepath"
	"sync/atomic"
	"time"
)

// ErrChildTimeout is returned when the child did not terminate within the bound.
var ErrChildTimeout = errors.New("scenario child timed out")

var runCounter int64

// RunScenario executes the scenario in a child process (binary from $VERIF_BIN_MODSCENARIO) and returns its result.
// A crash of the child is returned as an error that carries its output.
func RunScenario(sc *Scenario, timeout time.Duration) (*Result, error) {
	bin := os.Getenv("VERIF_BIN_MODSCENARIO")
	if bin == "" {
		return nil, errors.New("VERIF_BIN_MODSCENARIO not set")
	}
	dir := os.Getenv("VERIF_SCRATCH")
	if dir == "" {
		dir = os.TempDir()
	}
	n := atomic.AddInt64(&runCounter, 1)
	scPath := filepath.Join(dir, fmt.Sprintf("scenario-%d-%d.json", os.Getpid(), n))
	resPath := filepath.Join(dir, fmt.Sprintf("result-%d-%d.json", os.Getpid(), n))
	b, _ := json.Marshal(sc)
	if err := os.WriteFile(scPath, b, 0o644); err != nil {
		return nil, err
	}
	defer os.Remove(scPath)
	defer os.Remove(resPath)
	if j := os.Getenv("VERIF_JOURNAL"); j != "" {
		_ = os.WriteFile(j, b, 0o644)
	}
	ctx, cancel := context.WithTimeout(context.Background(), timeout)
	defer cancel()
	cmd := exec.CommandContext(ctx, bin, scPath, resPath)
	cmd.Stdout = nil
	var stderr limitedBuf
	cmd.Stderr = &stderr
	err := cmd.Run()
	if ctx.Err() != nil {
		return nil, ErrChildTimeout
	}
	if err != nil {
		return nil, fmt.Errorf("scenario child died: %w\n%s", err, stderr.String())
	}
	return LoadResult(resPath)
}

type limitedBuf struct{ b []byte }

func (l *limitedBuf) Write(p []byte) (int, error) {
	if len(l.b) < 16384 {
		l.b = append(l.b, p...)
	}
	return len(p), nil
}

func (l *limitedBuf) String() string { return string(l.b) }
