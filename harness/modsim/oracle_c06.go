package modsim

import (
	"fmt"
	"strings"
	"time"
)

// PanicMatches reports whether a rendered report carries the panic value of the given kind.
func PanicMatches(kind string, r *Report) bool {
	switch kind {
	case "nil":
		return r.PanicType == "<nil>" || r.PanicType == "*runtime.PanicNilError"
	case "error":
		return r.PanicType == "*errors.errorString" && r.PanicValue == "boom-err"
	case "string":
		return r.PanicType == "string" && r.PanicValue == "boom-string"
	case "runtime":
		return strings.HasPrefix(r.PanicType, "runtime.") && strings.Contains(r.PanicValue, "index out of range")
	case "nilderef":
		return strings.HasPrefix(r.PanicType, "runtime.") && strings.Contains(r.PanicValue, "nil pointer dereference")
	case "struct":
		return r.PanicType == "modsim.PlainStruct" && r.PanicValue == "{7 x}"
	case "custom":
		return r.PanicType == "modsim.CustomErr" && r.PanicValue == "custom error 42"
	case "typednil":
		return r.PanicType == "*fs.PathError"
	case "slice":
		return r.PanicType == "[]string" && r.PanicValue == "[boom slice]"
	case "map":
		return r.PanicType == "map[string]int" && r.PanicValue == "map[boom:1]"
	case "slicestruct":
		return r.PanicType == "modsim.SliceStruct" && r.PanicValue == "{boom [a b]}"
	case "moduleerror":
		return r.PanicType == "*modules.ModuleError" && r.PanicValue == "boom-module-error"
	case "ctxcanceled":
		return r.PanicType == "*errors.errorString" && r.PanicValue == "context canceled"
	case "ctxwrapped":
		return r.PanicType == "*fmt.wrapError" && r.PanicValue == "wrapped: context canceled"
	}
	return false
}

func goodPanicReport(kind string, r *Report) string {
	switch {
	case r == nil:
		return "no panic error"
	case !r.IsPanic:
		return "error does not identify itself as a panic (severity " + r.Severity + ")"
	case !PanicMatches(kind, r):
		return fmt.Sprintf("panic value is %s(%s), thrown kind %q", r.PanicType, r.PanicValue, kind)
	case !r.HasStack:
		return "no stack trace"
	case !r.StackNames:
		return "stack trace does not name the panicking function"
	}
	return ""
}

// CheckC06 judges an event log against property C06 (panics in managed code are contained, reported, accounted).
// The process surviving is established by the caller (the child completed).
func CheckC06(sc *Scenario, res *Result) *Violation {
	if !res.Completed {
		return violf("C06-run", "child did not complete: %s", res.Note)
	}
	work := map[int]*Work{}
	for i := range sc.Modules {
		for j := range sc.Modules[i].Work {
			w := &sc.Modules[i].Work[j]
			work[w.ID] = w
		}
	}
	reports := map[string][]*Report{} // module|taskname -> reports on the channel
	var lastReport *Report
	lastReportSeen := false
	for _, e := range res.Events {
		if e.Kind == "report" && e.Report != nil {
			k := e.Mod + "|" + e.Info
			reports[k] = append(reports[k], e.Report)
		}
		if e.Kind == "last-report" {
			lastReport, lastReportSeen = e.Report, true
		}
	}
	began := map[int]int{}
	panicked := map[int]bool{}
	panickedRuns := map[int]int{}
	anyPanic := false
	// lifecycle panics: the API call that invoked the routine (the first call returning after the routine began) must
	// return an error. A routine that is still in flight when Start already returned an error for another module is
	// covered by that error.
	lcName := map[string]string{"prep": "prep module", "start": "start module", "stop": "stop module"}
	beginSeq := map[string]int64{}
	beginT := map[string]int64{}
	apiAfter := func(seq int64) *Event {
		for i := range res.Events {
			e := &res.Events[i]
			if e.Kind == "api" && e.Seq > seq && (e.Info == "start" || e.Info == "manage" || e.Info == "shutdown") {
				return e
			}
		}
		return nil
	}
	for _, e := range res.Events {
		switch e.Kind {
		case "prep-begin", "start-begin", "stop-begin":
			beginSeq[e.Kind[:len(e.Kind)-6]+"|"+e.Mod] = e.Seq
			beginT[e.Kind[:len(e.Kind)-6]+"|"+e.Mod] = e.T
		case "prep-end", "start-end", "stop-end":
			if e.Info == "panic" {
				anyPanic = true
				phase := strings.TrimSuffix(e.Kind, "-end")
				m := sc.Mod(e.Mod)
				cb := map[string]Callback{"prep": m.Prep, "start": m.Start, "stop": m.Stop}[phase]
				found := ""
				for _, r := range reports[e.Mod+"|"+lcName[phase]] {
					if found = goodPanicReport(cb.Panic, r); found == "" {
						break
					}
				}
				if sc.NoReports {
					found = ""
				} else if len(reports[e.Mod+"|"+lcName[phase]]) == 0 {
					return violf("C06-report-missing", "panic in %s routine of %s was not reported through the module error channel", phase, e.Mod)
				}
				if found != "" {
					return violf("C06-report-content", "report for the panic in %s routine of %s: %s", phase, e.Mod, found)
				}
				from := beginSeq[phase+"|"+e.Mod]
				if phase == "prep" {
					// prep routines are only ever invoked by Start, which does not wait for the other preps once one has
					// failed: such a routine may even begin after Start has returned (with its error)
					from = 0
				}
				if phase == "stop" && sc.StopTimeoutMS > 0 && e.T-beginT[phase+"|"+e.Mod] > int64(sc.StopTimeoutMS)*int64(time.Millisecond)/2 {
					// the routine took so long (a starved process) that the module system may have stopped waiting for
					// it before it panicked: the call cannot know of the panic then
					continue
				}
				if call := apiAfter(from); call != nil && call.ErrNil {
					return violf("C06-lifecycle-error", "%s returned nil although the %s routine of %s, invoked by that call, panicked", call.Info, phase, e.Mod)
				} else if call != nil && call.Report != nil && call.Report.IsPanic && !call.Report.HasStack {
					return violf("C06-lifecycle-error", "%s returned a panic error without stack trace (%s routine of %s panicked)", call.Info, phase, e.Mod)
				}
			}
		case "expected-counts":
			// find the preceding counts snapshot
			var snap *Event
			for i := range res.Events {
				if res.Events[i].Seq == e.Seq-1 && res.Events[i].Kind == "api" && res.Events[i].Info == "counts" {
					snap = &res.Events[i]
				}
			}
			if snap != nil {
				for mod, exp := range e.Counts {
					got := snap.Counts[mod]
					if got[0] != exp[0] || got[1] != exp[1] || got[2] != exp[2] {
						return violf("C06-counters", "at quiescence the counters of %s are workers=%d tasks=%d microtasks=%d but %d/%d/%d items are really running (a panic leaked or dropped a count)", mod, got[0], got[1], got[2], exp[0], exp[1], exp[2])
					}
				}
			}
		case "work-begin":
			began[e.ID]++
		case "work-end":
			w := work[e.ID]
			if w != nil && w.Panic != "" && began[e.ID] == 1 {
				panicked[e.ID] = true
				anyPanic = true
			}
			if w != nil && began[e.ID] <= w.PanickingRuns() {
				panickedRuns[e.ID]++
			}
		case "work-return":
			w := work[e.ID]
			if w == nil {
				continue
			}
			if w.Panic != "" {
				if e.ErrNil {
					return violf("C06-blocking-return", "%s #%d panicked but the blocking call returned nil", w.Kind, w.ID)
				}
				if msg := goodPanicReport(w.Panic, e.Report); msg != "" {
					return violf("C06-blocking-return", "%s #%d panicked; returned error %q: %s", w.Kind, w.ID, e.Err, msg)
				}
			} else if !e.ErrNil {
				return violf("C06-healthy-return", "healthy %s #%d returned error %q", w.Kind, w.ID, e.Err)
			}
		case "rerun-waited":
			if w := work[e.ID]; w != nil && w.QueueInside && e.Info == fmt.Sprintf("runs=%d", w.Requeue+1) {
				return violf("C06-task-rerun", "task #%d was queued again while its panicking execution was running and did not run for that submission within 20 s", e.ID)
			}
		case "requeued":
			w := work[e.ID]
			if w != nil && w.Panic != "" && w.Mode == "finish" && e.Info == "runs=1" {
				return violf("C06-task-rerun", "task #%d panicked and did not run again when re-queued", e.ID)
			}
		}
	}
	// every panicked work item was reported on the channel with its value
	for id := range panicked {
		w := work[id]
		mod := ""
		for _, m := range sc.Modules {
			for _, x := range m.Work {
				if x.ID == id {
					mod = m.Name
				}
			}
		}
		var cands []*Report
		if w.Kind == "hook" {
			for k, rs := range reports {
				if strings.HasPrefix(k, mod+"|event hook") && strings.HasSuffix(k, fmt.Sprintf("/w%d", id)) {
					cands = append(cands, rs...)
				}
			}
		} else {
			cands = reports[mod+"|"+fmt.Sprintf("w%d", id)]
		}
		if len(cands) == 0 && !sc.NoReports {
			return violf("C06-report-missing", "panic of %s #%d (module %s) was not reported through the module error channel", w.Kind, id, mod)
		}
		msg := ""
		for _, r := range cands {
			if msg = goodPanicReport(w.Panic, r); msg == "" {
				break
			}
		}
		if msg != "" {
			return violf("C06-report-content", "report for the panic of %s #%d: %s", w.Kind, id, msg)
		}
		// an item that panicked in several runs (its runs never overlap) is reported every time; the harness' channel
		// holds 256 reports and is drained all the time, so nothing is dropped
		if !sc.NoReports && !sc.UnbufferedReports {
			good := 0
			for _, r := range cands {
				if goodPanicReport(w.Panic, r) == "" {
					good++
				}
			}
			if good < panickedRuns[id] {
				return violf("C06-report-missing", "%s #%d (module %s) panicked in %d runs but only %d of them were reported through the module error channel", w.Kind, id, mod, panickedRuns[id], good)
			}
		}
		// service workers are restarted
		if w.Kind == "service" && w.Mode == "finish" && w.BackoffMS < 1000 && began[id] < w.PanickingRuns()+1 {
			return violf("C06-service-restart", "service worker #%d panicked and was not run again", id)
		}
	}
	if anyPanic && lastReportSeen && lastReport == nil {
		return violf("C06-last-report", "GetLastReportedError returned nothing although a panic was reported")
	}
	if anyPanic && lastReport != nil && lastReport.IsPanic && !lastReport.HasStack {
		return violf("C06-last-report", "the last reported error is a panic error without stack trace")
	}
	if anyPanic && !lastReportSeen {
		return violf("C06-last-report", "GetLastReportedError returned nil although a panic occurred")
	}
	return nil
}
