// Package modsim describes module-lifecycle scenarios that are executed in a
// child process (the modules and log packages are one-shot per process), the
// event log such a child produces, and the pure oracles that judge a log
// against the properties C01, C05 and C06.
package modsim

import (
	"encoding/json"
	"fmt"
	"os"
	"sort"
	"strings"
)

// Callback describes one lifecycle routine (prep, start or stop).
type Callback struct {
	DurUS int    `json:"dur_us"`          // run time: 0 none, 1 = runtime.Gosched, otherwise microseconds
	Fault string `json:"fault,omitempty"` // "", "error", "panic"
	Panic string `json:"panic,omitempty"` // panic value kind when Fault == "panic" (see PanicKinds)
	// ErrKind: which error a failing routine returns: "" a plain error, "cleanexit" modules.ErrCleanExit,
	// "cleanexit-wrapped" an error wrapping it, "ctxcanceled" context.Canceled. A routine that returns any of
	// them has failed.
	ErrKind string `json:"err_kind,omitempty"`
	// FaultTimes > 0: only the first FaultTimes invocations of the routine fail (a later attempt succeeds).
	FaultTimes int `json:"fault_times,omitempty"`
	// Launch: IDs of work items of this module that the routine itself starts (before it returns or fails),
	// e.g. a start routine that launches its workers and then reports an error.
	Launch []int `json:"launch,omitempty"`
}

// PanicKinds are the panic values used by C06.
var PanicKinds = []string{"nil", "error", "string", "runtime", "nilderef", "struct", "custom", "ctxcanceled", "ctxwrapped", "typednil", "slice", "map", "slicestruct", "moduleerror"}

// Work is one piece of managed work started on a module while it is online.
type Work struct {
	ID   int    `json:"id"`
	Kind string `json:"kind"` // see WorkKinds
	// Mode "finish": returns after HoldUS on its own. Mode "waitctx": waits
	// for its context to be cancelled and then takes DelayUS to return.
	Mode    string `json:"mode"`
	HoldUS  int    `json:"hold_us,omitempty"`
	DelayUS int    `json:"delay_us,omitempty"`
	// Panic, if set, makes the first run of the function panic with that
	// kind of value (after HoldUS / after cancellation+DelayUS).
	Panic string `json:"panic,omitempty"`
	// PanicRuns > 1: the first PanicRuns runs panic (a service worker that fails the same way on every restart, a
	// task that panics again when it is queued again).
	PanicRuns int `json:"panic_runs,omitempty"`
	// On names the module whose event the hook listens on (Kind "hook"
	// only; empty = own module).
	On string `json:"on,omitempty"`
	// Fail makes the first run return a plain error (service workers then go into their back-off wait of
	// BackoffMS milliseconds before they are run again).
	Fail      bool `json:"fail,omitempty"`
	BackoffMS int  `json:"backoff_ms,omitempty"`
	// Returns (service workers): what the function returns once it is through: "" nil; "restartnow" modules.ErrRestartNow
	// (run again at once; at most in its first three runs); "ctxcanceled" context.Canceled (finished, no restart);
	// "error" a plain error in every run (restart after the back-off of BackoffMS, default 1 ms).
	Returns string `json:"returns,omitempty"`
	// Requeue (tasks): the first Requeue runs return after 300 us and queue the task again from inside; Mode, Panic
	// etc. apply to the run after them (the launch step waits for that run to begin).
	Requeue int `json:"requeue,omitempty"`
	// MaxDelayMS (tasks): the task gets this maximum delay. QueueInside: the first run after the Requeue ones queues the
	// task again from inside before it holds (and panics); with a hold longer than the maximum delay the new submission
	// is overdue while the execution still runs.
	MaxDelayMS  int  `json:"max_delay_ms,omitempty"`
	QueueInside bool `json:"queue_inside,omitempty"`
	// NoWait: the launch step does not wait for the item to begin (a task that cannot get a time slot while the
	// microtask limit is used up).
	NoWait bool `json:"no_wait,omitempty"`
}

// PanickingRuns is the number of runs of the item that panic.
func (w *Work) PanickingRuns() int {
	if w.Panic == "" {
		return 0
	}
	if w.PanicRuns > 1 {
		return w.PanicRuns
	}
	return 1
}

// WorkKinds lists the supported kinds of managed work.
var WorkKinds = []string{
	"runworker", "startworker", "service", "task", "schedtask",
	"run_mt_high", "run_mt_med", "run_mt_low",
	"start_mt_high", "start_mt_med", "start_mt_low",
	"sig_mt_high", "sig_mt_med", "sig_mt_low",
	"hook",
}

// Module is one registered module.
type Module struct {
	Name  string   `json:"name"`
	Deps  []string `json:"deps,omitempty"`
	Prep  Callback `json:"prep"`
	Start Callback `json:"start"`
	Stop  Callback `json:"stop"`
	Work  []Work   `json:"work,omitempty"`
}

// Step is one action of the harness between registration and the end.
type Step struct {
	// Op: start | enable | disable | manage | launch | relaunch | waitfinish | poststop | shutdown (US = further concurrent
	// callers) | sleep | sigstorm (US = attempts) | straddle (microtasks of US microseconds on modules that are not
	// online) | waitstraddle | trigger (the event of the listed modules once more)
	Op   string   `json:"op"`
	Mods []string `json:"mods,omitempty"`
	US   int      `json:"us,omitempty"`
	// Conc (manage): further goroutines that each enable / disable some modules (Op, Mods) and then request a
	// management pass of their own while this pass is requested; the step ends when all of them have returned.
	Conc []Step `json:"conc,omitempty"`
}

// Delay makes the n-th arrival (1-based; 0 = every arrival) of a goroutine at a
// guarded yield point sleep for DelayUS.
type Delay struct {
	Point   string `json:"point"`
	Ctx     string `json:"ctx,omitempty"` // module / task name, "" = any
	Nth     int    `json:"nth"`
	DelayUS int    `json:"delay_us"`
}

// Scenario is a complete child run.
type Scenario struct {
	Modules        []Module `json:"modules"`
	Mgmt           bool     `json:"mgmt"`
	Enabled        []string `json:"enabled,omitempty"`
	Steps          []Step   `json:"steps"`
	StartTimeoutMS int      `json:"start_timeout_ms"`
	StopTimeoutMS  int      `json:"stop_timeout_ms"`
	Delays         []Delay  `json:"delays,omitempty"`
	MicroTaskLimit int      `json:"microtask_limit,omitempty"`
	// NoReports: no error reporting channel is installed (and reporting to stderr is off, as always): panics are still
	// contained, returned as panic errors with value and stack trace, and remembered as the last reported error.
	NoReports bool `json:"no_reports,omitempty"`
	// SlowItems: work items take a good part of the stop timeout to return after cancellation. The promptness clause
	// of C05 (which assumes items that return within milliseconds) is not applied; a run in which an item needed more
	// than half the stop timeout (a starved process) is not judged at all.
	SlowItems bool `json:"slow_items,omitempty"`
	// ManageAfterFailedStart: the steps after a failed Start are executed instead of skipped (retrying with a
	// management pass is what a caller with module management does).
	ManageAfterFailedStart bool `json:"manage_after_failed_start,omitempty"`
	// ReportsCap > 0: the error reporting channel holds this many reports and its consumer is slow: it only reads
	// after Start, a management pass or Shutdown has returned. A report that found room stays until it is read.
	ReportsCap int `json:"reports_cap,omitempty"`
	// UnbufferedReports: the error reporting channel has no buffer; a receiver is waiting on it all the time.
	UnbufferedReports bool `json:"unbuffered_reports,omitempty"`
}

// Event is one entry of the child's log.
type Event struct {
	Seq     int64  `json:"seq"`
	T       int64  `json:"t_ns"`
	Kind    string `json:"kind"`
	Mod     string `json:"mod,omitempty"`
	ID      int    `json:"id,omitempty"`
	Info    string `json:"info,omitempty"`
	CtxDone bool   `json:"ctx_done,omitempty"`
	// api events
	Err    string            `json:"err,omitempty"`
	ErrNil bool              `json:"err_nil,omitempty"`
	Status map[string]uint8  `json:"status,omitempty"`
	Counts map[string][4]int `json:"counts,omitempty"` // workers, tasks, microtasks, ctrl
	DurNS  int64             `json:"dur_ns,omitempty"`
	// report events (module error channel)
	Report *Report `json:"report,omitempty"`
}

// Report is a ModuleError as seen on the error reporting channel or returned.
type Report struct {
	Module     string `json:"module"`
	TaskName   string `json:"task_name"`
	TaskType   string `json:"task_type"`
	Severity   string `json:"severity"`
	PanicValue string `json:"panic_value"` // rendered with %#v / type
	PanicType  string `json:"panic_type"`
	HasStack   bool   `json:"has_stack"`
	StackNames bool   `json:"stack_names_panicking_func"`
	IsPanic    bool   `json:"is_panic"`
	Message    string `json:"message"`
}

// Result is what the child writes.
type Result struct {
	Events    []Event `json:"events"`
	Completed bool    `json:"completed"` // all steps executed and the child reached its end
	Note      string  `json:"note,omitempty"`
}

// Status values of modules.Module.Status().
const (
	StatusDead      = 0
	StatusPreparing = 1
	StatusOffline   = 2
	StatusStopping  = 3
	StatusStarting  = 4
	StatusOnline    = 5
)

// Load reads a scenario file.
func Load(path string) (*Scenario, error) {
	b, err := os.ReadFile(path)
	if err != nil {
		return nil, err
	}
	sc := &Scenario{}
	return sc, json.Unmarshal(b, sc)
}

// LoadResult reads a result file.
func LoadResult(path string) (*Result, error) {
	b, err := os.ReadFile(path)
	if err != nil {
		return nil, err
	}
	r := &Result{}
	return r, json.Unmarshal(b, r)
}

// Mod returns the module with the given name.
func (sc *Scenario) Mod(name string) *Module {
	for i := range sc.Modules {
		if sc.Modules[i].Name == name {
			return &sc.Modules[i]
		}
	}
	return nil
}

// TransitiveDeps returns the set of modules reachable over Deps from the given roots (roots included).
func (sc *Scenario) TransitiveDeps(roots []string) map[string]bool {
	out := map[string]bool{}
	var walk func(string)
	walk = func(n string) {
		if out[n] {
			return
		}
		out[n] = true
		if m := sc.Mod(n); m != nil {
			for _, d := range m.Deps {
				walk(d)
			}
		}
	}
	for _, r := range roots {
		walk(r)
	}
	return out
}

// Fingerprint is a canonical rendering used to count distinct scenarios.
func (sc *Scenario) Fingerprint() string {
	b, _ := json.Marshal(sc)
	return string(b)
}

// Edges counts dependency edges.
func (sc *Scenario) Edges() int {
	n := 0
	for _, m := range sc.Modules {
		n += len(m.Deps)
	}
	return n
}

// HasFault reports whether any lifecycle routine has a fault.
func (sc *Scenario) HasFault() bool {
	for _, m := range sc.Modules {
		if m.Prep.Fault != "" || m.Start.Fault != "" || m.Stop.Fault != "" {
			return true
		}
	}
	return false
}

func sortedKeys(m map[string]bool) []string {
	out := make([]string, 0, len(m))
	for k, v := range m {
		if v {
			out = append(out, k)
		}
	}
	sort.Strings(out)
	return out
}

// Violation is an oracle verdict.
type Violation struct {
	Clause string
	Msg    string
}

func (v *Violation) Error() string { return v.Clause + ": " + v.Msg }

func violf(clause, format string, a ...any) *Violation {
	return &Violation{Clause: clause, Msg: fmt.Sprintf(format, a...)}
}

// RenderEvents renders the lifecycle part of an event log compactly (for failure messages).
func RenderEvents(evs []Event, max int) string {
	var sb strings.Builder
	n := 0
	for _, e := range evs {
		if e.Kind == "point" {
			continue
		}
		if n >= max {
			sb.WriteString(" …")
			break
		}
		n++
		switch e.Kind {
		case "api":
			fmt.Fprintf(&sb, " [%d api %s err=%q status=%v]", e.Seq, e.Info, e.Err, e.Status)
		default:
			fmt.Fprintf(&sb, " [%d %s %s", e.Seq, e.Kind, e.Mod)
			if e.ID != 0 {
				fmt.Fprintf(&sb, "#%d", e.ID)
			}
			if e.Info != "" {
				fmt.Fprintf(&sb, " %s", e.Info)
			}
			if e.CtxDone {
				sb.WriteString(" ctxdone")
			}
			sb.WriteString("]")
		}
	}
	return sb.String()
}
