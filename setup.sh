#!/bin/sh
# Build the framework from files on disk only (offline). Pre-compiles the test binaries of all integrated checks
# once so that the first check does not pay for compiling portbase's dependencies.
set -e
cd "$(dirname "$0")/harness"
export GOFLAGS=-mod=mod GOPROXY=off GOSUMDB=off GOTOOLCHAIN=local
mkdir -p ../.build
pkgs=""
for id in $(cat ../lib/ready.txt); do
  d="./c$(echo "$id" | tr -d 'C')"
  [ -d "$d" ] && pkgs="$pkgs $d"
done
go test -tags verif -count=1 -run '^$' ./internal/... ./modsim/... $pkgs >/dev/null
echo "setup ok"
