#!/bin/sh
# Build the framework from files on disk only (offline). Pre-compiles every test binary once so that the
# first check does not pay for compiling portbase's dependencies.
set -e
cd "$(dirname "$0")/harness"
export GOFLAGS=-mod=mod GOPROXY=off GOSUMDB=off GOTOOLCHAIN=local
mkdir -p ../.build
go vet -tags verif ./internal/... >/dev/null 2>&1 || true
go test -tags verif -count=1 -run '^$' ./... >/dev/null
echo "setup ok"
