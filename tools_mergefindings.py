#!/usr/bin/env python3
"""Development helper: move harness/cNN/known-findings.part into known-findings.txt, rewriting commit hashes
from the builder's clone to the re-applied commits in /repo (matched by subject)."""
import re, subprocess, sys, os
clone, part = sys.argv[1], sys.argv[2]
def log(d):
    out = subprocess.run(['git','-C',d,'log','--format=%h %s'],stdout=subprocess.PIPE,text=True).stdout.splitlines()
    return [l.split(' ',1) for l in out]
new = {s:h for h,s in log('/repo')}
old = log(clone)
lines=[]
for l in open(part):
    l=l.rstrip('\n')
    if not l.strip() or l.startswith('#'): continue
    m=re.search(r'commit=(\w+)',l)
    if m:
        h=m.group(1)
        subj=[s for hh,s in old if hh.startswith(h) or h.startswith(hh)]
        if not subj or subj[0] not in new:
            print("UNMAPPED", l[:100]); lines.append(l); continue
        l=l.replace('commit='+h,'commit='+new[subj[0]])
    lines.append(l)
open('/verif/known-findings.txt','a').write('\n'.join(lines)+'\n')
os.remove(part)
print("merged %d lines from %s" % (len(lines), part))
